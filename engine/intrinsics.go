package main

import (
	"fmt"
	"go/types"
	"strings"

	"golang.org/x/tools/go/ssa"
)

var intrinsics = map[string]intrinsicFn{}

func reg(f intrinsicFn, names ...string) {
	for _, n := range names {
		intrinsics[n] = f
	}
}

func findIntrinsic(fn *ssa.Function) intrinsicFn {
	name := fn.String()
	if f, ok := intrinsics[name]; ok {
		return f
	}
	if fn.Pkg != nil && strings.HasPrefix(fn.Name(), "verif") && fn.Parent() == nil && fn.Signature.Recv() == nil {
		if f, ok := verifAPI[fn.Name()]; ok {
			return f
		}
	}
	if fn.Synthetic == "package initializer" && fn.Pkg != nil {
		return func(ex *Exec, fn *ssa.Function, args []Value, caller *frame) Value {
			if !ex.prog.initPkgs[fn.Pkg.Pkg.Path()] {
				return nil
			}
			return ex.runInitBody(fn, args, caller)
		}
	}
	// generic instantiations of sync/atomic types etc.
	if o := fn.Origin(); o != nil && o != fn {
		if f, ok := intrinsics[o.String()]; ok {
			return f
		}
	}
	return nil
}

func (ex *Exec) runInitBody(fn *ssa.Function, args []Value, caller *frame) (res Value) {
	info := ex.prog.info(fn)
	d := ex.depth
	defer func() {
		if r := recover(); r != nil {
			ex.depth = d
			switch x := r.(type) {
			case pathEnd:
				if ex.prog.verbose {
					fmt.Printf("init of %s aborted: %s\n", fn.Pkg.Pkg.Path(), x.msg)
				}
			case targetPanic:
				if ex.prog.verbose {
					fmt.Printf("init of %s panicked: %s\n", fn.Pkg.Pkg.Path(), ex.describePanic(x.v))
				}
			default:
				panic(r)
			}
		}
	}()
	return ex.execBody(fn, info, args, nil, caller)
}

// ---------- helpers ----------

func (ex *Exec) argStr(v Value) string {
	s, ok := ex.concreteString(v.(Str))
	if !ok {
		ex.fail(stOutOfModel, "symbolic string where a concrete one is required")
	}
	return s
}

func (ex *Exec) freshVar(name string, w uint8, kind string) *Term {
	n := fmt.Sprintf("%s#%d", name, len(ex.inputs))
	if ex.concrete {
		var v uint64
		if ex.concPos < len(ex.concVals) {
			v = ex.concVals[ex.concPos]
		}
		ex.concPos++
		t := mkConst(w, v)
		ex.inputs = append(ex.inputs, inputRec{Name: n, W: w, term: t, Kind: kind})
		return t
	}
	t := ex.st.Var(n, w)
	ex.inputs = append(ex.inputs, inputRec{Name: n, W: w, term: t, Kind: kind})
	return t
}

func nondetInt(w uint8) intrinsicFn {
	return func(ex *Exec, fn *ssa.Function, args []Value, caller *frame) Value {
		return ex.freshVar(ex.argStr(args[0]), w, "val")
	}
}

var verifAPI = map[string]intrinsicFn{}

func init() {
	verifAPI["verifU8"] = nondetInt(8)
	verifAPI["verifU16"] = nondetInt(16)
	verifAPI["verifU32"] = nondetInt(32)
	verifAPI["verifU64"] = nondetInt(64)
	verifAPI["verifI32"] = nondetInt(32)
	verifAPI["verifI64"] = nondetInt(64)
	verifAPI["verifInt"] = nondetInt(64)
	verifAPI["verifBool"] = func(ex *Exec, fn *ssa.Function, args []Value, caller *frame) Value {
		v := ex.freshVar(ex.argStr(args[0]), 8, "val")
		return ex.st.Not(ex.st.Eq(ex.st.Extract(v, 0, 0), mkConst(1, 0)))
	}
	verifAPI["verifChoice"] = func(ex *Exec, fn *ssa.Function, args []Value, caller *frame) Value {
		n := int(ex.concretize(args[1].(*Term)))
		name := ex.argStr(args[0])
		var c int
		if ex.concrete {
			if ex.concPos < len(ex.concVals) {
				c = int(ex.concVals[ex.concPos])
			}
			ex.concPos++
		} else {
			c = ex.choose(n)
		}
		ex.inputs = append(ex.inputs, inputRec{Name: fmt.Sprintf("%s#%d", name, len(ex.inputs)), W: 64, term: c64(int64(c)), Kind: "choice"})
		return c64(int64(c))
	}
	verifAPI["verifBound"] = func(ex *Exec, fn *ssa.Function, args []Value, caller *frame) Value {
		name := ex.argStr(args[0])
		if v, ok := ex.harness.Bounds[name]; ok {
			return c64(int64(v))
		}
		return args[1]
	}
	verifAPI["verifAssume"] = func(ex *Exec, fn *ssa.Function, args []Value, caller *frame) Value {
		ex.assume(args[0].(*Term))
		return nil
	}
	verifAPI["verifAssert"] = func(ex *Exec, fn *ssa.Function, args []Value, caller *frame) Value {
		ex.obligation(args[0].(*Term), ex.argStr(args[1]), "assert")
		return nil
	}
	verifAPI["verifReach"] = func(ex *Exec, fn *ssa.Function, args []Value, caller *frame) Value {
		ex.res.reach[ex.argStr(args[0])] = true
		return nil
	}
	verifAPI["verifClass"] = func(ex *Exec, fn *ssa.Function, args []Value, caller *frame) Value {
		ex.classes = append(ex.classes, classRec{ex.argStr(args[0]), args[1].(*Term)})
		return nil
	}
	verifAPI["verifOr"] = func(ex *Exec, fn *ssa.Function, args []Value, caller *frame) Value {
		return ex.st.Or(args[0].(*Term), args[1].(*Term))
	}
	verifAPI["verifAnd"] = func(ex *Exec, fn *ssa.Function, args []Value, caller *frame) Value {
		return ex.st.And(args[0].(*Term), args[1].(*Term))
	}
	verifAPI["verifImplies"] = func(ex *Exec, fn *ssa.Function, args []Value, caller *frame) Value {
		return ex.st.Or(ex.st.Not(args[0].(*Term)), args[1].(*Term))
	}
	ite := func(ex *Exec, fn *ssa.Function, args []Value, caller *frame) Value {
		return ex.st.Ite(args[0].(*Term), args[1].(*Term), args[2].(*Term))
	}
	for _, n := range []string{"verifIteU64", "verifIteInt", "verifIteU16", "verifIteI64", "verifIteBool", "verifIteU32", "verifIteU8"} {
		verifAPI[n] = ite
	}
	verifAPI["verifBytes"] = func(ex *Exec, fn *ssa.Function, args []Value, caller *frame) Value {
		name := ex.argStr(args[0])
		n := int64(ex.concretize(args[1].(*Term)))
		o := ex.newObject(n, "verifBytes:"+name)
		for i := int64(0); i < n; i++ {
			o.cells[i] = cell{1, ex.freshVar(name, 8, "val")}
		}
		return Slice{Ptr{o, zero64}, c64(n), c64(n)}
	}
	verifAPI["verifReadOnly"] = func(ex *Exec, fn *ssa.Function, args []Value, caller *frame) Value {
		s := args[0].(Slice)
		if s.p.obj != nil {
			ex.w(s.p.obj).ro = true
		}
		return nil
	}
	verifAPI["verifPoison"] = func(ex *Exec, fn *ssa.Function, args []Value, caller *frame) Value {
		s := args[0].(Slice)
		if s.p.obj != nil {
			ex.w(s.p.obj).dead = true
		}
		return nil
	}
	verifAPI["verifExpectPanic"] = func(ex *Exec, fn *ssa.Function, args []Value, caller *frame) Value {
		ex.expectPanic = true
		return nil
	}
	verifAPI["verifConcretize"] = func(ex *Exec, fn *ssa.Function, args []Value, caller *frame) Value {
		t := args[0].(*Term)
		return mkConst(t.w, ex.concretize(t))
	}
	verifAPI["verifStop"] = func(ex *Exec, fn *ssa.Function, args []Value, caller *frame) Value {
		ex.fail(stStop, "verifStop")
		return nil
	}
	verifAPI["verifLocksFree"] = func(ex *Exec, fn *ssa.Function, args []Value, caller *frame) Value {
		for _, v := range ex.locks {
			if v != 0 {
				return tFalse
			}
		}
		return tTrue
	}
	verifAPI["verifNative"] = func(ex *Exec, fn *ssa.Function, args []Value, caller *frame) Value {
		return tFalse
	}
	// verifHash(tag uint64, x uint64) uint64: uninterpreted function
	verifAPI["verifUF"] = func(ex *Exec, fn *ssa.Function, args []Value, caller *frame) Value {
		name := ex.argStr(args[0])
		return ex.st.App("uf_"+name, 64, args[1].(*Term), args[2].(*Term))
	}

	registerSync()
	registerStd()
}

// ---------- sync / atomic ----------

func lockKeyOf(ex *Exec, v Value) lockKey {
	p := v.(Ptr)
	if p.obj == nil {
		ex.throwRuntime("nil mutex")
	}
	return lockKey{p.obj, int64(ex.concretize(p.off))}
}

func registerSync() {
	nop := func(ex *Exec, fn *ssa.Function, args []Value, caller *frame) Value { return nil }
	reg(func(ex *Exec, fn *ssa.Function, args []Value, caller *frame) Value {
		k := lockKeyOf(ex, args[0])
		if ex.locks[k] != 0 {
			ex.fail(stDeadlock, "self-deadlock: Lock of a mutex already held (%s)", k.obj.label)
		}
		ex.locks[k] = -1
		return nil
	}, "(*sync.Mutex).Lock", "(*sync.RWMutex).Lock")
	reg(func(ex *Exec, fn *ssa.Function, args []Value, caller *frame) Value {
		k := lockKeyOf(ex, args[0])
		if ex.locks[k] != 0 {
			return tFalse
		}
		ex.locks[k] = -1
		return tTrue
	}, "(*sync.Mutex).TryLock", "(*sync.RWMutex).TryLock")
	reg(func(ex *Exec, fn *ssa.Function, args []Value, caller *frame) Value {
		k := lockKeyOf(ex, args[0])
		if ex.locks[k] != -1 {
			ex.fail(stPanic, "fatal error: sync: unlock of unlocked mutex")
		}
		ex.locks[k] = 0
		return nil
	}, "(*sync.Mutex).Unlock", "(*sync.RWMutex).Unlock")
	reg(func(ex *Exec, fn *ssa.Function, args []Value, caller *frame) Value {
		k := lockKeyOf(ex, args[0])
		if ex.locks[k] < 0 {
			ex.fail(stDeadlock, "self-deadlock: RLock while write-locked (%s)", k.obj.label)
		}
		ex.locks[k]++
		return nil
	}, "(*sync.RWMutex).RLock")
	reg(func(ex *Exec, fn *ssa.Function, args []Value, caller *frame) Value {
		k := lockKeyOf(ex, args[0])
		if ex.locks[k] <= 0 {
			ex.fail(stPanic, "fatal error: sync: RUnlock of unlocked RWMutex")
		}
		ex.locks[k]--
		return nil
	}, "(*sync.RWMutex).RUnlock")
	reg(nop, "(*sync.WaitGroup).Add", "(*sync.WaitGroup).Done", "(*sync.Pool).Put", "runtime.KeepAlive", "runtime.GC", "runtime.Gosched",
		"runtime.SetFinalizer", "(*sync.Cond).Signal", "(*sync.Cond).Broadcast", "os.Exit")
	reg(func(ex *Exec, fn *ssa.Function, args []Value, caller *frame) Value {
		ex.runPendingGoroutines()
		return nil
	}, "(*sync.WaitGroup).Wait")
	reg(func(ex *Exec, fn *ssa.Function, args []Value, caller *frame) Value {
		// Pool.Get: always miss
		p := args[0].(Ptr)
		pt := fn.Signature.Recv().Type().Underlying().(*types.Pointer).Elem().Underlying().(*types.Struct)
		for i := 0; i < pt.NumFields(); i++ {
			if pt.Field(i).Name() == "New" {
				nf := ex.load(pt.Field(i).Type(), ptrAdd(ex.st, p, ex.prog.fieldOffsets(pt)[i])).(*Closure)
				if nf == nil {
					return Iface{}
				}
				return ex.callValue(nf, nil, caller)
			}
		}
		return Iface{}
	}, "(*sync.Pool).Get")

	for _, ty := range []struct {
		name string
		n    int
	}{{"Int32", 4}, {"Uint32", 4}, {"Int64", 8}, {"Uint64", 8}, {"Uintptr", 8}} {
		n := ty.n
		reg(func(ex *Exec, fn *ssa.Function, args []Value, caller *frame) Value {
			return ex.loadNum(args[0].(Ptr), n)
		}, "sync/atomic.Load"+ty.name)
		reg(func(ex *Exec, fn *ssa.Function, args []Value, caller *frame) Value {
			ex.storeNum(args[0].(Ptr), n, args[1])
			return nil
		}, "sync/atomic.Store"+ty.name)
		reg(func(ex *Exec, fn *ssa.Function, args []Value, caller *frame) Value {
			p := args[0].(Ptr)
			v := ex.st.Bin(OpAdd, ex.loadNum(p, n).(*Term), args[1].(*Term))
			ex.storeNum(p, n, v)
			return v
		}, "sync/atomic.Add"+ty.name)
		reg(func(ex *Exec, fn *ssa.Function, args []Value, caller *frame) Value {
			p := args[0].(Ptr)
			old := ex.loadNum(p, n)
			ex.storeNum(p, n, args[1])
			return old
		}, "sync/atomic.Swap"+ty.name)
		reg(func(ex *Exec, fn *ssa.Function, args []Value, caller *frame) Value {
			p := args[0].(Ptr)
			old := ex.loadNum(p, n).(*Term)
			if ex.branch(ex.st.Eq(old, args[1].(*Term))) {
				ex.storeNum(p, n, args[2])
				return tTrue
			}
			return tFalse
		}, "sync/atomic.CompareAndSwap"+ty.name)
	}
	reg(func(ex *Exec, fn *ssa.Function, args []Value, caller *frame) Value {
		return ex.loadPtrLeaf(args[0].(Ptr))
	}, "sync/atomic.LoadPointer")
	reg(func(ex *Exec, fn *ssa.Function, args []Value, caller *frame) Value {
		ex.storeRef(args[0].(Ptr), 8, args[1])
		return nil
	}, "sync/atomic.StorePointer")
	reg(func(ex *Exec, fn *ssa.Function, args []Value, caller *frame) Value {
		p := args[0].(Ptr)
		old := ex.loadPtrLeaf(p)
		if ex.branch(ex.ptrEq(old, args[1].(Ptr))) {
			ex.storeRef(p, 8, args[2])
			return tTrue
		}
		return tFalse
	}, "sync/atomic.CompareAndSwapPointer")
}

// ---------- std library stubs ----------

func (ex *Exec) opaqueString(tag string) Str {
	o := ex.newObject(8, "opaque-string:"+tag)
	o.dead = true
	return Str{Ptr{o, zero64}, c64(8)}
}

// newError builds an error value via the interpreted errors.New.
func (ex *Exec) newError(msg Str) Value {
	f := ex.prog.stdFunc("errors", "New")
	return ex.callFunction(f, []Value{msg}, nil)
}

func sliceBytes(ex *Exec, v Value) (Ptr, int64) {
	switch s := v.(type) {
	case Slice:
		return s.p, int64(ex.concretize(s.len))
	case Str:
		return s.p, int64(ex.concretize(s.len))
	}
	panic("sliceBytes")
}

func registerStd() {
	// fmt: formatting is not the subject; results are opaque strings.
	reg(func(ex *Exec, fn *ssa.Function, args []Value, caller *frame) Value {
		return ex.opaqueString(fn.Name())
	}, "fmt.Sprintf", "fmt.Sprint", "fmt.Sprintln")
	reg(func(ex *Exec, fn *ssa.Function, args []Value, caller *frame) Value {
		return ex.newError(ex.opaqueString("Errorf"))
	}, "fmt.Errorf")
	reg(func(ex *Exec, fn *ssa.Function, args []Value, caller *frame) Value {
		return Tuple{zero64, Iface{}}
	}, "fmt.Printf", "fmt.Println", "fmt.Print", "fmt.Fprintf", "fmt.Fprintln", "fmt.Fprint")
	nop := func(ex *Exec, fn *ssa.Function, args []Value, caller *frame) Value { return nil }
	reg(nop, "log.Printf", "log.Println", "log.Print", "(*log.Logger).Printf", "(*log.Logger).Println", "(*log.Logger).Print", "(*log.Logger).Output")
	reg(func(ex *Exec, fn *ssa.Function, args []Value, caller *frame) Value {
		return zero64
	}, "runtime.Callers", "runtime.NumGoroutine", "runtime.NumCPU", "runtime.GOMAXPROCS")
	reg(func(ex *Exec, fn *ssa.Function, args []Value, caller *frame) Value {
		return nil
	}, "runtime.ReadMemStats", "runtime/debug.FreeOSMemory")

	// internal/bytealg
	reg(func(ex *Exec, fn *ssa.Function, args []Value, caller *frame) Value {
		p, n := sliceBytes(ex, args[0])
		c := args[1].(*Term)
		res := c64(-1)
		for i := n - 1; i >= 0; i-- {
			b := ex.loadNum(ptrAdd(ex.st, p, i), 1).(*Term)
			res = ex.st.Ite(ex.st.Eq(b, c), c64(i), res)
		}
		if res.op != OpConst {
			return mkConst(64, ex.concretize(res))
		}
		return res
	}, "internal/bytealg.IndexByte", "internal/bytealg.IndexByteString")
	reg(func(ex *Exec, fn *ssa.Function, args []Value, caller *frame) Value {
		p, n := sliceBytes(ex, args[0])
		c := args[1].(*Term)
		res := zero64
		for i := int64(0); i < n; i++ {
			b := ex.loadNum(ptrAdd(ex.st, p, i), 1).(*Term)
			res = ex.st.Bin(OpAdd, res, ex.st.BoolToBV(ex.st.Eq(b, c), 64))
		}
		return res
	}, "internal/bytealg.Count", "internal/bytealg.CountString")
	reg(func(ex *Exec, fn *ssa.Function, args []Value, caller *frame) Value {
		a := args[0].(Slice)
		b := args[1].(Slice)
		return ex.strEq(Str{a.p, a.len}, Str{b.p, b.len})
	}, "internal/bytealg.Equal", "bytes.Equal")
	reg(func(ex *Exec, fn *ssa.Function, args []Value, caller *frame) Value {
		a := args[0].(Slice)
		b := args[1].(Slice)
		sa, sb := Str{a.p, a.len}, Str{b.p, b.len}
		lt := ex.strLess(sa, sb, false)
		eq := ex.strEq(sa, sb)
		return ex.st.Ite(lt, c64(-1), ex.st.Ite(eq, zero64, one64))
	}, "internal/bytealg.Compare", "bytes.Compare")
	reg(func(ex *Exec, fn *ssa.Function, args []Value, caller *frame) Value {
		var sa, sb Str
		switch x := args[0].(type) {
		case Str:
			sa = x
		case Slice:
			sa = Str{x.p, x.len}
		}
		switch x := args[1].(type) {
		case Str:
			sb = x
		case Slice:
			sb = Str{x.p, x.len}
		}
		lt := ex.strLess(sa, sb, false)
		eq := ex.strEq(sa, sb)
		return ex.st.Ite(lt, c64(-1), ex.st.Ite(eq, zero64, one64))
	}, "strings.Compare", "internal/bytealg.CompareString", "runtime.cmpstring")
	reg(func(ex *Exec, fn *ssa.Function, args []Value, caller *frame) Value {
		n := int64(ex.concretize(args[0].(*Term)))
		o := ex.newObject(n, "bytes")
		return Slice{Ptr{o, zero64}, c64(n), c64(n)}
	}, "internal/bytealg.MakeNoZero")
	reg(func(ex *Exec, fn *ssa.Function, args []Value, caller *frame) Value {
		// Index(a, b): naive search with concrete lengths
		pa, na := sliceBytes(ex, args[0])
		pb, nb := sliceBytes(ex, args[1])
		res := c64(-1)
		for i := na - nb; i >= 0; i-- {
			m := tTrue
			for j := int64(0); j < nb; j++ {
				x := ex.loadNum(ptrAdd(ex.st, pa, i+j), 1).(*Term)
				y := ex.loadNum(ptrAdd(ex.st, pb, j), 1).(*Term)
				m = ex.st.And(m, ex.st.Eq(x, y))
			}
			res = ex.st.Ite(m, c64(i), res)
		}
		if res.op != OpConst {
			return mkConst(64, ex.concretize(res))
		}
		return res
	}, "internal/bytealg.Index", "internal/bytealg.IndexString")

	// math/bits: direct SMT definitions
	for _, w := range []uint8{8, 16, 32, 64} {
		w := w
		suffix := fmt.Sprintf("%d", w)
		lenf := func(ex *Exec, fn *ssa.Function, args []Value, caller *frame) Value {
			x := ex.st.Resize(args[0].(*Term), w, false)
			res := zero64
			for i := uint8(0); i < w; i++ {
				bit := ex.st.Eq(ex.st.Extract(x, i, i), mkConst(1, 1))
				res = ex.st.Ite(bit, c64(int64(i)+1), res)
			}
			return res
		}
		reg(lenf, "math/bits.Len"+suffix)
		reg(func(ex *Exec, fn *ssa.Function, args []Value, caller *frame) Value {
			l := lenf(ex, fn, args, caller).(*Term)
			return ex.st.Bin(OpSub, c64(int64(w)), l)
		}, "math/bits.LeadingZeros"+suffix)
		reg(func(ex *Exec, fn *ssa.Function, args []Value, caller *frame) Value {
			x := ex.st.Resize(args[0].(*Term), w, false)
			res := c64(int64(w))
			for i := int(w) - 1; i >= 0; i-- {
				bit := ex.st.Eq(ex.st.Extract(x, uint8(i), uint8(i)), mkConst(1, 1))
				res = ex.st.Ite(bit, c64(int64(i)), res)
			}
			return res
		}, "math/bits.TrailingZeros"+suffix)
		reg(func(ex *Exec, fn *ssa.Function, args []Value, caller *frame) Value {
			x := ex.st.Resize(args[0].(*Term), w, false)
			if k, ok := x.ConstVal(); ok {
				n := 0
				for ; k != 0; k &= k - 1 {
					n++
				}
				return c64(int64(n))
			}
			res := mkConst(8, 0)
			for i := uint8(0); i < w; i++ {
				res = ex.st.Bin(OpAdd, res, ex.st.ZExt(ex.st.Extract(x, i, i), 8))
			}
			return ex.st.ZExt(res, 64)
		}, "math/bits.OnesCount"+suffix)
	}
	reg(func(ex *Exec, fn *ssa.Function, args []Value, caller *frame) Value {
		x := args[0].(*Term)
		args[0] = x
		return intrinsics["math/bits.Len64"](ex, fn, args, caller)
	}, "math/bits.Len")
	reg(func(ex *Exec, fn *ssa.Function, args []Value, caller *frame) Value {
		return intrinsics["math/bits.TrailingZeros64"](ex, fn, args, caller)
	}, "math/bits.TrailingZeros")
	reg(func(ex *Exec, fn *ssa.Function, args []Value, caller *frame) Value {
		return intrinsics["math/bits.LeadingZeros64"](ex, fn, args, caller)
	}, "math/bits.LeadingZeros")
	reg(func(ex *Exec, fn *ssa.Function, args []Value, caller *frame) Value {
		return intrinsics["math/bits.OnesCount64"](ex, fn, args, caller)
	}, "math/bits.OnesCount")

	// sort.Slice / SliceStable: insertion sort through the real less closure
	reg(func(ex *Exec, fn *ssa.Function, args []Value, caller *frame) Value {
		x := args[0].(Iface)
		less := args[1].(*Closure)
		s, ok := x.v.(Slice)
		if !ok {
			ex.fail(stOutOfModel, "sort.Slice of non-slice")
		}
		et := x.t.Underlying().(*types.Slice).Elem()
		es := sizeof(et)
		n := int64(ex.concretize(s.len))
		tmp := ex.newObject(es, "sort-tmp")
		for i := int64(1); i < n; i++ {
			for j := i; j > 0; j-- {
				r := ex.callValue(less, []Value{c64(j), c64(j - 1)}, caller).(*Term)
				if !ex.branch(r) {
					break
				}
				a := ptrAdd(ex.st, s.p, j*es)
				b := ptrAdd(ex.st, s.p, (j-1)*es)
				ex.memmove(Ptr{tmp, zero64}, a, es)
				ex.memmove(a, b, es)
				ex.memmove(b, Ptr{tmp, zero64}, es)
			}
		}
		return nil
	}, "sort.Slice", "sort.SliceStable")

	// time
	reg(func(ex *Exec, fn *ssa.Function, args []Value, caller *frame) Value {
		// arbitrary non-decreasing instant: (wall=0, ext=seconds since year 1, loc=nil)
		ex.nowTick++
		v := ex.freshVar("now", 64, "env")
		lo := c64(63_000_000_000) // ~ year 1997
		hi := c64(66_000_000_000) // ~ year 2092
		ex.assume(ex.st.And(ex.st.Sle(lo, v), ex.st.Sle(v, hi)))
		if ex.lastNow != nil {
			ex.assume(ex.st.Sle(ex.lastNow, v))
		}
		ex.lastNow = v
		return Agg{zero64, v, nilPtr()}
	}, "time.Now")
	reg(func(ex *Exec, fn *ssa.Function, args []Value, caller *frame) Value {
		// elapsed time: two representative durations (just now / one hour),
		// explored as a fork; throttles compare it with constants in between
		if caller != nil && caller.fn != nil && caller.fn.Pkg != nil && caller.fn.Pkg.Pkg.Path() == "github.com/boltdb/bolt" {
			// bolt measures its own transactions for statistics only
			return zero64
		}
		var c int
		if ex.concrete {
			if ex.concPos < len(ex.concVals) {
				c = int(ex.concVals[ex.concPos])
			}
			ex.concPos++
		} else {
			c = ex.choose(2)
		}
		ex.inputs = append(ex.inputs, inputRec{Name: fmt.Sprintf("since#%d", len(ex.inputs)), W: 64, term: c64(int64(c)), Kind: "env"})
		if c == 0 {
			return zero64
		}
		return c64(3600_000_000_000)
	}, "time.Since")
	reg(func(ex *Exec, fn *ssa.Function, args []Value, caller *frame) Value {
		return nil
	}, "time.Sleep")
	// math/rand global source: an arbitrary non-negative value (environment)
	reg(func(ex *Exec, fn *ssa.Function, args []Value, caller *frame) Value {
		v := ex.freshVar("rand", 64, "env")
		ex.assume(ex.st.Sle(zero64, v))
		return v
	}, "math/rand.Int63")

	// errors in init of heavy packages
	opq := func(ex *Exec, fn *ssa.Function, args []Value, caller *frame) Value {
		if !ex.initPhase {
			ex.fail(stOutOfModel, "call to unmodelled %s", fn.String())
		}
		return ex.opaqueResult(fn)
	}
	reg(opq, "regexp.MustCompile", "regexp.Compile", "regexp.MustCompilePOSIX", "github.com/gogo/protobuf/proto.RegisterType",
		"github.com/gogo/protobuf/proto.RegisterFile", "github.com/gogo/protobuf/proto.RegisterEnum", "github.com/golang/protobuf/proto.RegisterType",
		"github.com/golang/protobuf/proto.RegisterFile", "github.com/golang/protobuf/proto.RegisterEnum", "github.com/gogo/protobuf/proto.RegisterMapType",
		"github.com/golang/protobuf/proto.RegisterMapType", "expvar.NewMap", "expvar.NewInt", "expvar.Publish", "os.Getenv", "os.LookupEnv", "os.Hostname",
		"github.com/gogo/protobuf/proto.RegisterExtension", "github.com/golang/protobuf/proto.RegisterExtension", "os.Getpagesize", "os.Getwd",
		"text/template.New", "html/template.New", "net/http.HandleFunc", "net/http.Handle", "flag.String", "flag.Bool", "flag.Int")
}

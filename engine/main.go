package main

import (
	"encoding/json"
	"flag"
	"fmt"
	"os"
	"path/filepath"
	"regexp"
	"runtime"
	"runtime/debug"
	"sort"
	"strings"
	"sync"
	"time"
)

type HarnessCfg struct {
	Name        string         `json:"name"`
	Bounds      map[string]int `json:"bounds"`
	MaxSteps    int            `json:"max_steps"`
	MaxDepth    int            `json:"max_depth"`
	MaxPaths    int            `json:"max_paths"`
	Known       []string       `json:"known"`
	ReverseMaps bool           `json:"reverse_maps"`
	Concrete    []uint64       `json:"concrete"` // run once with these nondet values (conformance / debugging)
	AllowGo     bool           `json:"allow_go"`
	Expect      []string       `json:"expect_reach"`
}

type Config struct {
	Repo       string       `json:"repo"`
	Packages   []string     `json:"packages"` // import paths relative to module root, e.g. "./roaring"
	HarnessDir string       `json:"harness_dir"`
	Workers    int          `json:"workers"`
	Harnesses  []HarnessCfg `json:"harnesses"`
	Out        string       `json:"out"`
	Solver     string       `json:"solver"`
	TimeoutMs  int          `json:"solver_timeout_ms"`
	TimeLimitS int          `json:"time_limit_s"`
	PathLimitS int          `json:"path_limit_s"`
	Samples    int          `json:"samples"`
	Verbose    bool         `json:"verbose"`
	LogQueries string       `json:"log_queries"`
}

type HarnessResult struct {
	Name          string            `json:"name"`
	Paths         int               `json:"paths"`
	Status        map[string]int    `json:"status"`
	Obligations   int               `json:"obligations"`
	Discharged    int               `json:"discharged"`
	Inconclusive  int               `json:"inconclusive"`
	Violations    []Violation       `json:"violations"`
	Reach         []string          `json:"reach"`
	Samples       [][]ModelInput    `json:"samples"`
	Steps         int64             `json:"steps"`
	Complete      bool              `json:"complete"`
	Problems      map[string]int    `json:"problems"` // out-of-model / budget / inconclusive messages
	WallS         float64           `json:"wall_s"`
	Bounds        map[string]int    `json:"bounds"`
	MissingReach  []string          `json:"missing_reach,omitempty"`
	violKeys      map[string]int
	mu            sync.Mutex
	queued, done  int
	cfg           HarnessCfg
	h             *Harness
	start         time.Time
	end           time.Time
}

type Output struct {
	Harnesses     []*HarnessResult `json:"harnesses"`
	Functions     []string         `json:"functions_encoded"`
	SolverQueries int              `json:"solver_queries"`
	SolverS       float64          `json:"solver_s"`
	SolverErrors  int              `json:"solver_errors"`
	Fallbacks     int64            `json:"solver_fallback_runs"`
	LoadS         float64          `json:"load_s"`
	InitS         float64          `json:"init_s"`
	WallS         float64          `json:"wall_s"`
	Error         string           `json:"error,omitempty"`
}

type job struct {
	hr   *HarnessResult
	item workItem
}

func main() {
	cfgPath := flag.String("config", "", "config json")
	trace := flag.Bool("trace", false, "trace instructions")
	flag.Parse()
	debug.SetGCPercent(200)
	progress := os.Getenv("GOSYM_PROGRESS") != ""
	raw, err := os.ReadFile(*cfgPath)
	if err != nil {
		fatal(err)
	}
	var cfg Config
	if err := json.Unmarshal(raw, &cfg); err != nil {
		fatal(err)
	}
	if cfg.Workers <= 0 {
		cfg.Workers = runtime.NumCPU()
	}
	if cfg.Solver == "" {
		cfg.Solver = "z3"
	}
	if cfg.TimeoutMs == 0 {
		cfg.TimeoutMs = 20000
	}
	out := &Output{}
	t0 := time.Now()
	writeOut := func() {
		out.WallS = time.Since(t0).Seconds()
		b, _ := json.MarshalIndent(out, "", " ")
		if cfg.Out != "" {
			os.WriteFile(cfg.Out, b, 0o644)
		} else {
			os.Stdout.Write(b)
		}
	}

	// scratch modfile so that /repo/go.mod is never rewritten
	scratch, err := os.MkdirTemp("", "gosym-")
	if err != nil {
		fatal(err)
	}
	defer os.RemoveAll(scratch)
	for _, f := range []string{"go.mod", "go.sum"} {
		b, err := os.ReadFile(filepath.Join(cfg.Repo, f))
		if err != nil {
			fatal(err)
		}
		os.WriteFile(filepath.Join(scratch, f), b, 0o644)
	}

	overlay, pkgPaths, err := buildOverlay(cfg.Repo, cfg.HarnessDir, cfg.Packages)
	if err != nil {
		fatal(err)
	}
	prog, err := loadProgram(cfg.Repo, cfg.Packages, overlay, filepath.Join(scratch, "go.mod"))
	if err != nil {
		out.Error = "load: " + err.Error()
		writeOut()
		os.RemoveAll(scratch)
		os.Exit(3)
	}
	prog.verbose = cfg.Verbose
	prog.pathLimit = 180 * time.Second
	if cfg.PathLimitS > 0 {
		prog.pathLimit = time.Duration(cfg.PathLimitS) * time.Second
	}
	if cfg.TimeLimitS > 0 {
		prog.hardStop = t0.Add(time.Duration(cfg.TimeLimitS+20) * time.Second)
	}
	out.LoadS = time.Since(t0).Seconds()
	ti := time.Now()
	s0, err := NewSolver(cfg.Solver, cfg.TimeoutMs)
	if err != nil {
		fatal(err)
	}
	if err := prog.runInit(pkgPaths, s0); err != nil {
		out.Error = "init: " + err.Error()
		writeOut()
		os.RemoveAll(scratch)
		os.Exit(3)
	}
	s0.Close()
	out.InitS = time.Since(ti).Seconds()
	prog.samplesWanted = int32(cfg.Samples)

	found := prog.findHarnesses(pkgPaths)
	var results []*HarnessResult
	for _, hc := range cfg.Harnesses {
		re, err := regexp.Compile("^" + hc.Name + "$")
		if err != nil {
			fatal(err)
		}
		var names []string
		for n := range found {
			if re.MatchString(n) {
				names = append(names, n)
			}
		}
		sort.Strings(names)
		if len(names) == 0 {
			out.Error += "no harness matches " + hc.Name + "; "
		}
		for _, n := range names {
			h := &Harness{Name: n, Fn: found[n], MaxSteps: hc.MaxSteps, MaxDepth: hc.MaxDepth, MaxPaths: hc.MaxPaths,
				Known: map[string]bool{}, ReverseMaps: hc.ReverseMaps, AllowGo: hc.AllowGo, Bounds: hc.Bounds, Concrete: hc.Concrete}
			if h.MaxSteps == 0 {
				h.MaxSteps = 2_000_000
			}
			if h.MaxDepth == 0 {
				h.MaxDepth = 400
			}
			if h.MaxPaths == 0 {
				h.MaxPaths = 200_000
			}
			for _, k := range hc.Known {
				h.Known[k] = true
			}
			hr := &HarnessResult{Name: n, Status: map[string]int{}, Problems: map[string]int{}, violKeys: map[string]int{}, cfg: hc, h: h, Bounds: hc.Bounds}
			results = append(results, hr)
		}
	}
	out.Harnesses = results

	// shared LIFO work pool
	var mu sync.Mutex
	cond := sync.NewCond(&mu)
	var stack []job
	active := 0
	for _, hr := range results {
		stack = append(stack, job{hr, workItem{}})
		hr.queued = 1
	}
	// reverse so the first harness starts first
	for i, j := 0, len(stack)-1; i < j; i, j = i+1, j-1 {
		stack[i], stack[j] = stack[j], stack[i]
	}
	reachAll := map[*HarnessResult]map[string]bool{}
	for _, hr := range results {
		reachAll[hr] = map[string]bool{}
	}
	var wg sync.WaitGroup
	solvers := make([]*Solver, cfg.Workers)
	var fatalErr interface{}
	for w := 0; w < cfg.Workers; w++ {
		wg.Add(1)
		go func(w int) {
			defer wg.Done()
			sv, err := NewSolver(cfg.Solver, cfg.TimeoutMs)
			if err != nil {
				fatal(err)
			}
			if cfg.LogQueries != "" && w == 0 {
				f, _ := os.Create(cfg.LogQueries)
				sv.log = f
			}
			solvers[w] = sv
			defer sv.Close()
			for {
				mu.Lock()
				for len(stack) == 0 && active > 0 && fatalErr == nil {
					cond.Wait()
				}
				if len(stack) == 0 || fatalErr != nil {
					mu.Unlock()
					cond.Broadcast()
					return
				}
				if cfg.TimeLimitS > 0 && time.Since(t0) > time.Duration(cfg.TimeLimitS)*time.Second {
					for _, jj := range stack {
						jj.hr.Problems["budget: time limit reached; exploration incomplete"]++
					}
					stack = nil
					mu.Unlock()
					cond.Broadcast()
					return
				}
				j := stack[len(stack)-1]
				stack = stack[:len(stack)-1]
				active++
				if j.hr.start.IsZero() {
					j.hr.start = time.Now()
				}
				mu.Unlock()

				var res *PathResult
				func() {
					defer func() {
						if r := recover(); r != nil {
							mu.Lock()
							if fatalErr == nil {
								fatalErr = fmt.Sprintf("engine crash in %s: %v\n%s", j.hr.Name, r, debug.Stack())
							}
							mu.Unlock()
						}
					}()
					tp := time.Now()
					res = prog.runPathTraced(j.hr.h, sv, j.item, *trace)
					if progress && res != nil {
						fmt.Fprintf(os.Stderr, "[w%d] %s depth=%d status=%s steps=%d obl=%d new=%d %.2fs %s\n", w, j.hr.Name, len(j.item.prefix),
							statusNames[res.status], res.steps, res.obligations, len(res.newWork), time.Since(tp).Seconds(), res.msg)
						if res.status != stOK && res.status != stInfeasible {
							var alts []int
							for i, d := range j.item.prefix {
								if i >= 24 {
									break
								}
								alts = append(alts, d.Alt)
							}
							fmt.Fprintf(os.Stderr, "    prefix alts: %v\n", alts)
						}
					}
				}()

				mu.Lock()
				active--
				if res != nil {
					hr := j.hr
					hr.Paths++
					hr.done++
					hr.Status[statusNames[res.status]]++
					hr.Obligations += res.obligations
					hr.Discharged += res.discharged
					hr.Inconclusive += res.inconcl
					hr.Steps += int64(res.steps)
					if res.status != stInfeasible {
						for k := range res.reach {
							reachAll[hr][k] = true
						}
					}
					switch res.status {
					case stOutOfModel, stBudget, stInconclusive:
						hr.Problems[statusNames[res.status]+": "+res.msg]++
					}
					for _, v := range res.violations {
						key := v.Kind + "|" + v.Label + "|" + v.Known
						if v.Kind == "panic" || v.Kind == "unsafe" || v.Kind == "deadlock" {
							key += "|" + v.Msg
						}
						hr.violKeys[key]++
						if hr.violKeys[key] <= 2 {
							hr.Violations = append(hr.Violations, v)
						}
					}
					if res.sample != nil && len(hr.Samples) < 3 {
						hr.Samples = append(hr.Samples, res.sample)
					}
					if hr.Paths+len(res.newWork) > hr.h.MaxPaths+hr.queued {
						// budget: drop new work, mark incomplete
					}
					for _, it := range res.newWork {
						if hr.queued >= hr.h.MaxPaths {
							hr.Problems["budget: max_paths reached; exploration incomplete"]++
							break
						}
						hr.queued++
						stack = append(stack, job{hr, it})
					}
					if hr.done == hr.queued {
						hr.end = time.Now()
					}
				}
				mu.Unlock()
				cond.Broadcast()
			}
		}(w)
	}
	// watchdog: if workers are still busy well after the global limit (a solver
	// or path that ignores its deadline), stop waiting and report what we have
	doneCh := make(chan struct{})
	go func() { wg.Wait(); close(doneCh) }()
	if cfg.TimeLimitS > 0 {
		select {
		case <-doneCh:
		case <-time.After(time.Until(t0.Add(time.Duration(cfg.TimeLimitS+150) * time.Second))):
			mu.Lock()
			for _, hr := range results {
				if hr.done != hr.queued {
					hr.Problems["budget: watchdog stopped the run; exploration incomplete"]++
				}
			}
			stack = nil
			fatalErr = nil
			// leave mu locked: workers must not touch the results any more
		}
	} else {
		<-doneCh
	}
	if fatalErr != nil {
		out.Error = fmt.Sprint(fatalErr)
	}
	for _, sv := range solvers {
		if sv != nil {
			out.SolverQueries += sv.Queries
			out.SolverS += sv.Time.Seconds()
			out.SolverErrors += sv.Errors
		}
	}
	for _, hr := range results {
		for k := range reachAll[hr] {
			hr.Reach = append(hr.Reach, k)
		}
		sort.Strings(hr.Reach)
		for _, e := range hr.cfg.Expect {
			if !reachAll[hr][e] {
				hr.MissingReach = append(hr.MissingReach, e)
			}
		}
		hr.Complete = len(hr.Problems) == 0 && hr.Inconclusive == 0 && hr.done == hr.queued
		if !hr.end.IsZero() {
			hr.WallS = hr.end.Sub(hr.start).Seconds()
		}
	}
	out.Fallbacks = prog.fallbacks
	for f := range prog.funcsSeen {
		out.Functions = append(out.Functions, f)
	}
	sort.Strings(out.Functions)
	writeOut()
	dumpForkProfile()
	if out.Error != "" {
		fmt.Fprintln(os.Stderr, out.Error)
		os.RemoveAll(scratch)
		os.Exit(3)
	}
}

func (p *Program) runPathTraced(h *Harness, sv *Solver, item workItem, trace bool) *PathResult {
	return p.runPath(h, sv, item, trace)
}

func fatal(err error) {
	fmt.Fprintln(os.Stderr, "gosym:", err)
	os.Exit(3)
}

// buildOverlay maps harness files into the repo's package directories.
// harnessDir/<rel>/*.go -> repo/<rel>/zz_verif_<file>; harnessDir/rt.go.tmpl is
// instantiated once per package as zz_verif_rt.go.
func buildOverlay(repo, hdir string, pkgs []string) (map[string][]byte, []string, error) {
	ov := map[string][]byte{}
	var paths []string
	tmpl, err := os.ReadFile(filepath.Join(hdir, "rt.go.tmpl"))
	if err != nil {
		return nil, nil, err
	}
	for _, pk := range pkgs {
		rel := strings.TrimPrefix(pk, "./")
		if rel == "." {
			rel = ""
		}
		dir := filepath.Join(hdir, "pkg", rel)
		if rel == "" {
			dir = filepath.Join(hdir, "pkg", "_root")
		}
		ents, err := os.ReadDir(dir)
		if err != nil {
			return nil, nil, fmt.Errorf("harness dir for %s: %v", pk, err)
		}
		pkgName := ""
		for _, e := range ents {
			if !strings.HasSuffix(e.Name(), ".go") || strings.HasSuffix(e.Name(), "_test.go") {
				continue
			}
			b, err := os.ReadFile(filepath.Join(dir, e.Name()))
			if err != nil {
				return nil, nil, err
			}
			ov[filepath.Join(repo, rel, "zz_verif_"+e.Name())] = b
			if pkgName == "" {
				if m := regexp.MustCompile(`(?m)^package\s+(\w+)`).FindSubmatch(b); m != nil {
					pkgName = string(m[1])
				}
			}
		}
		if pkgName == "" {
			return nil, nil, fmt.Errorf("no harness files for %s", pk)
		}
		ov[filepath.Join(repo, rel, "zz_verif_rt.go")] = []byte(strings.Replace(string(tmpl), "package PKG", "package "+pkgName, 1))
		ip := "github.com/pilosa/pilosa"
		if rel != "" {
			ip += "/" + rel
		}
		paths = append(paths, ip)
	}
	return ov, paths, nil
}

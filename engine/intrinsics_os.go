package main

import "golang.org/x/tools/go/ssa"

// File-system operations that harnesses route around with in-memory files:
// fsync of a dummy handle is a no-op.
func init() {
	reg(func(ex *Exec, fn *ssa.Function, args []Value, caller *frame) Value {
		return Iface{}
	}, "(*os.File).Sync")
}

package main

import "os"

var debugPanic = os.Getenv("GOSYM_DEBUG_PANIC") != ""

package main

// xxhash (assembly in the real build) as an uninterpreted function of the
// byte sequence: equal sequences give equal digests, different sequences may
// or may not collide ("up to hash collisions").

import (
	"go/types"

	"golang.org/x/tools/go/ssa"
)

func structFieldPtr(ex *Exec, recv Ptr, st *types.Struct, name string) (Ptr, types.Type) {
	offs := ex.prog.fieldOffsets(st)
	for i := 0; i < st.NumFields(); i++ {
		if st.Field(i).Name() == name {
			return ptrAdd(ex.st, recv, offs[i]), st.Field(i).Type()
		}
	}
	panic(pathEnd{stOutOfModel, "field not found: " + name})
}

// foldBytes folds n bytes at p into state with the UF "uf_xxw" (8-byte words)
// and "uf_xxb" (trailing bytes).
func foldBytes(ex *Exec, state *Term, p Ptr, n int64) *Term {
	i := int64(0)
	for ; i+8 <= n; i += 8 {
		w := ex.loadNum(ptrAdd(ex.st, p, i), 8).(*Term)
		state = ex.st.App("uf_xxw", 64, state, w)
	}
	for ; i < n; i++ {
		b := ex.loadNum(ptrAdd(ex.st, p, i), 1).(*Term)
		state = ex.st.App("uf_xxb", 64, state, ex.st.ZExt(b, 64))
	}
	return state
}

func init() {
	recvStruct := func(fn *ssa.Function) *types.Struct {
		return fn.Signature.Recv().Type().Underlying().(*types.Pointer).Elem().Underlying().(*types.Struct)
	}
	reg(func(ex *Exec, fn *ssa.Function, args []Value, caller *frame) Value {
		x := args[0].(Ptr)
		st := recvStruct(fn)
		b := args[1].(Slice)
		n := int64(ex.concretize(b.len))
		v1p, _ := structFieldPtr(ex, x, st, "v1")
		tp, _ := structFieldPtr(ex, x, st, "total")
		state := ex.loadNum(v1p, 8).(*Term)
		state = foldBytes(ex, state, b.p, n)
		ex.storeNum(v1p, 8, state)
		tot := ex.loadNum(tp, 8).(*Term)
		ex.storeNum(tp, 8, ex.st.Bin(OpAdd, tot, c64(n)))
		return Tuple{c64(n), Iface{}}
	}, "(*github.com/cespare/xxhash.xxh).Write")
	reg(func(ex *Exec, fn *ssa.Function, args []Value, caller *frame) Value {
		x := args[0].(Ptr)
		st := recvStruct(fn)
		v1p, _ := structFieldPtr(ex, x, st, "v1")
		tp, _ := structFieldPtr(ex, x, st, "total")
		state := ex.loadNum(v1p, 8).(*Term)
		tot := ex.loadNum(tp, 8).(*Term)
		return ex.st.App("uf_xxfin", 64, state, tot)
	}, "(*github.com/cespare/xxhash.xxh).Sum64")
	sum := func(ex *Exec, fn *ssa.Function, args []Value, caller *frame) Value {
		var p Ptr
		var ln *Term
		switch b := args[0].(type) {
		case Slice:
			p, ln = b.p, b.len
		case Str:
			p, ln = b.p, b.len
		}
		n := int64(ex.concretize(ln))
		state := foldBytes(ex, mkConst(64, 0x9E3779B185EBCA87), p, n)
		h := ex.st.App("uf_xxfin", 64, state, c64(n))
		if k, ok := ex.harness.Bounds["xxhash_values"]; ok && k > 0 {
			// harness bound: the hash takes one of k small values (1..k), which
			// keeps every collision / probe pattern among few slots but bounds
			// the number of placements explored
			ex.assume(ex.st.And(ex.st.Ule(one64, h), ex.st.Ule(h, c64(int64(k)))))
		}
		return h
	}
	reg(sum, "github.com/cespare/xxhash.Sum64", "github.com/cespare/xxhash.Sum64String")
}

package main

// Path execution state, decisions (forking by re-execution), solver glue.

import (
	"fmt"
	"os"
	"sort"
	"strings"
	"time"

	"golang.org/x/tools/go/ssa"
)

type pathStatus int

const (
	stOK         pathStatus = iota
	stInfeasible            // an assumption made the path infeasible
	stPanic                 // target panic escaped the harness
	stOutOfModel            // reached unmodelled code
	stBudget                // instruction / depth budget exhausted (unwinding failure)
	stUnsafe                // out-of-object / read-only / poisoned access
	stDeadlock              // blocked forever / self-deadlock
	stStop                  // harness asked to stop (verifStop)
	stInconclusive          // solver unknown on an obligation
)

var statusNames = map[pathStatus]string{stOK: "ok", stInfeasible: "infeasible", stPanic: "panic", stOutOfModel: "out-of-model",
	stBudget: "budget", stUnsafe: "unsafe", stDeadlock: "deadlock", stStop: "stop", stInconclusive: "inconclusive"}

// pathEnd is thrown (as a Go panic) to abandon the current path.
type pathEnd struct {
	status pathStatus
	msg    string
}

// targetPanic is a panic of the interpreted program.
type targetPanic struct{ v Value }

type Decision struct {
	Alt int    `json:"a"`
	Val uint64 `json:"v,omitempty"`
}

type workItem struct {
	prefix []Decision
	model  Model
}

type inputRec struct {
	Name string `json:"name"`
	W    uint8  `json:"w"`
	term *Term
	Kind string `json:"kind"` // "val", "choice", "bytes"
	N    int    `json:"n,omitempty"`
}

type Violation struct {
	Kind    string            `json:"kind"` // assert | panic | unsafe | deadlock | hang
	Label   string            `json:"label"`
	Msg     string            `json:"msg"`
	Inputs  []ModelInput      `json:"inputs"`
	Prefix  []Decision        `json:"prefix"`
	Classes []string          `json:"classes,omitempty"`
	Known   string            `json:"known,omitempty"`
	Extra   map[string]string `json:"extra,omitempty"`
}

type ModelInput struct {
	Name string `json:"name"`
	W    uint8  `json:"w"`
	Val  uint64 `json:"val"`
	Kind string `json:"kind"`
}

type PathResult struct {
	status      pathStatus
	msg         string
	violations  []Violation
	reach       map[string]bool
	obligations int
	discharged  int
	inconcl     int
	steps       int
	newWork     []workItem
	sample      []ModelInput
}

type classRec struct {
	name string
	cond *Term
}

type Exec struct {
	prog     *Program
	st       *Store
	solver   *Solver
	em       *Emitter
	pc       []*Term
	sent     int
	model    Model
	modelOK  bool
	journal  []Decision
	jpos     int
	replayN  int // length of forced prefix
	cow      map[*Object]*Object
	cowMaps  map[*MapObj]*MapObj
	nextObj  int
	nextMap  int
	steps    int
	maxSteps int
	depth    int
	inputs   []inputRec
	res      *PathResult
	classes  []classRec
	harness  *Harness
	initPhase bool
	funcs    map[*ssa.Function]bool
	concrete bool // concrete mode: nondet reads come from a model
	concVals []uint64
	concPos  int
	locks    map[lockKey]int
	expectPanic bool
	opaqueOK bool
	nowTick  int
	lastNow  *Term
	vfs      map[string]*vfsFile // in-memory file system (intrinsics_vfs.go)
	vfsH     map[*Object]*vfsHandle
	vfsDirs  map[string]bool
	vfsErr   Value
	strCache map[string]*Object
	goq      []func()
	known    map[string]bool // known-finding classes (names) for this harness
	trace    bool
	deadline time.Time
	cur      *frame
	transcript strings.Builder // permanent solver text of this path (for one-shot fallbacks)
}

type lockKey struct {
	obj *Object
	off int64
}

// where describes the current interpreted call stack (innermost first).
func (ex *Exec) where() string {
	var sb strings.Builder
	n := 0
	for f := ex.cur; f != nil && n < 4; f = f.caller {
		if n > 0 {
			sb.WriteString(" <- ")
		}
		sb.WriteString(f.fn.Name())
		n++
	}
	return sb.String()
}

func (ex *Exec) fail(st pathStatus, format string, args ...interface{}) {
	panic(pathEnd{st, fmt.Sprintf(format, args...)})
}

// ---------- solver glue ----------

func (ex *Exec) addPC(c *Term) {
	if c.isTrue() {
		return
	}
	ex.pc = append(ex.pc, c)
}

func (ex *Exec) syncSolver() {
	if ex.sent == len(ex.pc) {
		return
	}
	var sb strings.Builder
	for _, c := range ex.pc[ex.sent:] {
		n := ex.em.Name(ex.st, c)
		sb.WriteString(ex.em.Flush())
		sb.WriteString("(assert " + n + ")\n")
	}
	ex.sent = len(ex.pc)
	ex.transcript.WriteString(sb.String())
	ex.solver.Send(sb.String())
}

// oneShot re-decides pc ∧ extra with fresh, non-incremental solver processes
// (cvc5, then the distribution's z3) when the incremental solver answered
// unknown. Returns "sat"/"unsat"/"unknown" and a model on sat.
func (ex *Exec) oneShot(extra *Term) (string, Model) {
	ex.syncSolver()
	var sb strings.Builder
	sb.WriteString(ex.transcript.String())
	if extra != nil {
		n := ex.em.Name(ex.st, extra)
		defs := ex.em.Flush()
		ex.transcript.WriteString(defs)
		ex.solver.Send(defs)
		sb.WriteString(defs)
		sb.WriteString("(assert " + n + ")\n")
	}
	body := sb.String()
	for _, name := range []string{"cvc5", "z3"} {
		remain := time.Until(ex.deadline)
		if !ex.deadline.IsZero() && remain < 5*time.Second {
			break
		}
		lim := 60 * time.Second
		if !ex.deadline.IsZero() && remain < lim {
			lim = remain
		}
		sv, err := NewSolver(name, int(lim/time.Millisecond))
		if err != nil {
			continue
		}
		ex.prog.addFallback()
		sv.Send(body)
		r := sv.CheckSat()
		var m Model
		if r == "sat" {
			names, keys := ex.modelNames()
			if vals, ok := sv.GetValues(names); ok {
				m = Model{}
				for i, n := range names {
					m[keys[i]] = vals[n]
				}
			} else {
				r = "unknown"
			}
		}
		sv.Close()
		if r == "sat" || r == "unsat" {
			return r, m
		}
	}
	return "unknown", nil
}

// valueNames lists every declared var / app for get-value.
func (ex *Exec) fetchModel() (Model, bool) {
	sn, sk := ex.modelNames()
	if len(sn) == 0 {
		return Model{}, true
	}
	vals, ok := ex.solver.GetValues(sn)
	if !ok {
		return nil, false
	}
	m := Model{}
	for i, n := range sn {
		m[sk[i]] = vals[n]
	}
	return m, true
}

// modelNames lists the solver names and model keys of every declared
// variable / uninterpreted application, in a deterministic order.
func (ex *Exec) modelNames() ([]string, []string) {
	var names []string
	var keys []string
	for t, n := range ex.em.done {
		if t.op == OpVar {
			names = append(names, n)
			keys = append(keys, t.name)
		} else if t.op == OpApp {
			names = append(names, n)
			keys = append(keys, appKey(t))
		}
	}
	if len(names) == 0 {
		return nil, nil
	}
	// deterministic order
	idx := make([]int, len(names))
	for i := range idx {
		idx[i] = i
	}
	sort.Slice(idx, func(a, b int) bool { return names[idx[a]] < names[idx[b]] })
	sn := make([]string, len(names))
	sk := make([]string, len(names))
	for i, j := range idx {
		sn[i], sk[i] = names[j], keys[j]
	}
	return sn, sk
}

// query checks pc ∧ extra. Returns "sat"/"unsat"/"unknown" and a model on sat.
func (ex *Exec) checkDeadline() {
	if !ex.deadline.IsZero() && time.Now().After(ex.deadline) {
		panic(pathEnd{stBudget, "per-path wall-clock limit exceeded"})
	}
}

func (ex *Exec) query(extra *Term) (string, Model) {
	ex.checkDeadline()
	ex.syncSolver()
	if extra != nil {
		n := ex.em.Name(ex.st, extra)
		defs := ex.em.Flush()
		ex.transcript.WriteString(defs)
		ex.solver.Send(defs)
		ex.solver.Push()
		ex.solver.Send("(assert " + n + ")\n")
	}
	r := ex.solver.CheckSat()
	var m Model
	if r == "sat" {
		mm, ok := ex.fetchModel()
		if ok {
			m = mm
		} else {
			r = "unknown"
		}
	}
	if extra != nil {
		ex.solver.Pop()
	}
	return r, m
}

func (ex *Exec) evalModel(t *Term) (uint64, bool) {
	if !ex.modelOK {
		return 0, false
	}
	return ex.evalIn(t, ex.model)
}

func (ex *Exec) evalIn(t *Term, m Model) (uint64, bool) {
	if t.op == OpConst {
		return t.k, true
	}
	c := &evalCtx{m: m, memo: map[*Term]uint64{}, ok: true, lenient: true}
	v := c.eval(t)
	return v, c.ok
}

// ensureModel makes ex.model a model of the current pc; false if pc is unsat.
func (ex *Exec) ensureModel() bool {
	if ex.modelOK {
		return true
	}
	r, m := ex.query(nil)
	switch r {
	case "sat":
		ex.model, ex.modelOK = m, true
		return true
	case "unsat":
		return false
	}
	switch r2, m2 := ex.oneShot(nil); r2 {
	case "sat":
		ex.model, ex.modelOK = m2, true
		return true
	case "unsat":
		return false
	}
	ex.fail(stInconclusive, "solver unknown on path feasibility")
	return false
}

// ---------- decisions ----------

func (ex *Exec) pushWork(alt Decision, m Model) {
	pre := make([]Decision, ex.jpos+1)
	copy(pre, ex.journal[:ex.jpos])
	pre[ex.jpos] = alt
	ex.res.newWork = append(ex.res.newWork, workItem{pre, m})
	if forkProfile {
		ex.prog.noteFork(ex.where())
	}
}

func (ex *Exec) record(d Decision) {
	ex.journal = append(ex.journal[:ex.jpos], d)
	ex.jpos++
	if ex.jpos > ex.harness.MaxDepth {
		ex.fail(stBudget, "fork depth %d exceeded (%s)", ex.harness.MaxDepth, ex.where())
	}
}

// branch decides a boolean term, forking when both sides are feasible.
func (ex *Exec) branch(c *Term) bool {
	if c.op == OpConst {
		return c.k == 1
	}
	if ex.jpos < ex.replayN {
		d := ex.journal[ex.jpos]
		ex.jpos++
		if d.Alt == 0 {
			ex.addPC(c)
			return true
		}
		ex.addPC(ex.st.Not(c))
		return false
	}
	if !ex.ensureModel() {
		ex.fail(stInfeasible, "path condition unsat")
	}
	mv, ok := ex.evalModel(c)
	nc := ex.st.Not(c)
	var tFeas, fFeas bool
	var otherModel Model
	if ok {
		if mv == 1 {
			tFeas = true
			r, m := ex.query(nc)
			if r == "sat" {
				fFeas, otherModel = true, m
			} else if r == "unknown" {
				fFeas = true // keep both sides (sound)
			}
		} else {
			fFeas = true
			r, m := ex.query(c)
			if r == "sat" {
				tFeas, otherModel = true, m
			} else if r == "unknown" {
				tFeas = true
			}
		}
	} else {
		r, m := ex.query(c)
		if r != "unsat" {
			tFeas = true
		}
		r2, m2 := ex.query(nc)
		if r2 != "unsat" {
			fFeas = true
		}
		// continue on the true side if feasible
		if tFeas {
			if r == "sat" {
				ex.model, ex.modelOK = m, true
			} else {
				ex.modelOK = false
			}
			if fFeas {
				ex.pushWork(Decision{Alt: 1}, m2)
			}
			ex.record(Decision{Alt: 0})
			ex.addPC(c)
			return true
		}
		if !fFeas {
			ex.fail(stInfeasible, "both branch sides unsat")
		}
		if r2 == "sat" {
			ex.model, ex.modelOK = m2, true
		} else {
			ex.modelOK = false
		}
		ex.record(Decision{Alt: 1})
		ex.addPC(nc)
		return false
	}
	// model-known side continues; the other side is queued
	if mv == 1 {
		if fFeas {
			ex.pushWork(Decision{Alt: 1}, otherModel)
		}
		ex.record(Decision{Alt: 0})
		ex.addPC(c)
		return true
	}
	if tFeas {
		ex.pushWork(Decision{Alt: 0}, otherModel)
	}
	ex.record(Decision{Alt: 1})
	ex.addPC(nc)
	return false
}

// choose makes an n-way concrete decision (all alternatives feasible).
func (ex *Exec) choose(n int) int {
	if n <= 1 {
		return 0
	}
	if ex.jpos < ex.replayN {
		d := ex.journal[ex.jpos]
		ex.jpos++
		return d.Alt
	}
	for i := n - 1; i >= 1; i-- {
		var m Model
		if ex.modelOK {
			m = ex.model
		}
		ex.pushWork(Decision{Alt: i}, m)
	}
	ex.record(Decision{Alt: 0})
	return 0
}

// concretize enumerates the feasible values of t (forking per value).
func (ex *Exec) concretize(t *Term) uint64 {
	if t.op == OpConst {
		return t.k
	}
	for {
		if ex.jpos < ex.replayN {
			d := ex.journal[ex.jpos]
			ex.jpos++
			eq := ex.st.Eq(t, mkConst(t.w, d.Val))
			if d.Alt == 0 {
				ex.addPC(eq)
				return d.Val
			}
			ex.addPC(ex.st.Not(eq))
			continue
		}
		if !ex.ensureModel() {
			ex.fail(stInfeasible, "path condition unsat")
		}
		v, ok := ex.evalModel(t)
		if !ok {
			r, m := ex.query(nil)
			if r != "sat" {
				ex.fail(stInconclusive, "solver unknown while concretising")
			}
			ex.model = m
			v, ok = ex.evalModel(t)
			if !ok {
				ex.fail(stInconclusive, "cannot evaluate term in model")
			}
		}
		eq := ex.st.Eq(t, mkConst(t.w, v))
		if debugConcretize {
			fmt.Fprintf(os.Stderr, "concretize %s = %d at %s\n", t.String(), v, ex.where())
		}
		if ex.jpos >= ex.harness.MaxDepth {
			ex.fail(stBudget, "fork depth %d exceeded while enumerating values of %s (%s)", ex.harness.MaxDepth, t.String(), ex.where())
		}
		r, m := ex.query(ex.st.Not(eq))
		if r != "unsat" {
			ex.pushWork(Decision{Alt: 1, Val: v}, m)
		}
		ex.record(Decision{Alt: 0, Val: v})
		ex.addPC(eq)
		return v
	}
}

// assume adds a constraint; ends the path if it becomes infeasible.
func (ex *Exec) assume(c *Term) {
	if c.isTrue() {
		return
	}
	if c.isFalse() {
		ex.fail(stInfeasible, "assume(false)")
	}
	ex.addPC(c)
	if ex.jpos < ex.replayN {
		return
	}
	if ex.modelOK {
		if v, ok := ex.evalModel(c); ok && v == 1 {
			return
		}
	}
	ex.modelOK = false
	if !ex.ensureModel() {
		ex.fail(stInfeasible, "assumption unsat")
	}
}

func (ex *Exec) modelInputs(m Model) []ModelInput {
	out := make([]ModelInput, 0, len(ex.inputs))
	for _, in := range ex.inputs {
		var v uint64
		if in.term != nil {
			v, _ = ex.evalIn(in.term, m)
		}
		out = append(out, ModelInput{in.Name, in.W, v, in.Kind})
	}
	// uninterpreted-function applications of harness stubs (verifUF): the
	// native replay looks the values up by (name, args)
	var ufs []ModelInput
	for _, t := range ex.st.apps {
		if len(t.args) != 2 || !strings.HasPrefix(t.name, "uf_") || strings.HasPrefix(t.name, "uf_xx") {
			continue
		}
		val, ok := m[appKey(t)]
		if !ok {
			continue
		}
		a0, _ := ex.evalIn(t.args[0], m)
		a1, _ := ex.evalIn(t.args[1], m)
		ufs = append(ufs, ModelInput{fmt.Sprintf("%s|%d|%d", strings.TrimPrefix(t.name, "uf_"), a0, a1), 64, val, "uf"})
	}
	sort.Slice(ufs, func(i, j int) bool { return ufs[i].Name < ufs[j].Name })
	return append(out, ufs...)
}

// obligation checks that c holds on every extension of the current path.
func (ex *Exec) obligation(c *Term, label string, kind string) {
	ex.res.obligations++
	if kind == "assert" {
		ex.res.reach["assert:"+label] = true
	}
	if c.isTrue() {
		ex.res.discharged++
		return
	}
	inPrefix := ex.jpos < ex.replayN
	if inPrefix {
		// already decided on the path that created this prefix
		ex.res.obligations--
		ex.addPC(c)
		return
	}
	if !ex.ensureModel() {
		ex.fail(stInfeasible, "path condition unsat")
	}
	if kind == "assert" {
		ex.res.reach["assert:"+label] = true
	}
	nc := ex.st.Not(c)
	var r string
	var m Model
	if v, ok := ex.evalModel(c); ok && v == 0 {
		r, m = "sat", ex.model
	} else {
		r, m = ex.query(nc)
		if r == "unknown" {
			r, m = ex.oneShot(nc)
		}
	}
	switch r {
	case "unsat":
		ex.res.discharged++
		return
	case "unknown":
		ex.res.inconcl++
		ex.res.reach["inconclusive:"+label] = true
		ex.addPC(c)
		ex.modelOK = false
		return
	}
	// violated: classify against registered classes
	v := Violation{Kind: kind, Label: label, Inputs: ex.modelInputs(m), Prefix: append([]Decision(nil), ex.journal[:ex.jpos]...)}
	var knownConds []*Term
	for _, cl := range ex.classes {
		if cv, ok := ex.evalIn(cl.cond, m); ok && cv == 1 {
			v.Classes = append(v.Classes, cl.name)
		}
		if ex.known[cl.name] {
			knownConds = append(knownConds, cl.cond)
		}
	}
	if len(knownConds) > 0 {
		// is there a violation outside all known classes?
		q := nc
		for _, k := range knownConds {
			q = ex.st.And(q, ex.st.Not(k))
		}
		r2, m2 := ex.query(q)
		if r2 == "sat" {
			v.Inputs = ex.modelInputs(m2)
			v.Classes = nil
			for _, cl := range ex.classes {
				if cv, ok := ex.evalIn(cl.cond, m2); ok && cv == 1 {
					v.Classes = append(v.Classes, cl.name)
				}
			}
		} else if r2 == "unsat" {
			// every violation lies in a known class; report one per satisfiable class
			for _, cl := range ex.classes {
				if !ex.known[cl.name] {
					continue
				}
				r3, m3 := ex.query(ex.st.And(nc, cl.cond))
				if r3 == "sat" {
					kv := Violation{Kind: kind, Label: label, Inputs: ex.modelInputs(m3), Known: cl.name,
						Prefix: append([]Decision(nil), ex.journal[:ex.jpos]...)}
					ex.res.violations = append(ex.res.violations, kv)
				}
			}
			v.Kind = ""
		} else {
			ex.res.inconcl++
		}
	}
	if v.Kind != "" {
		ex.res.violations = append(ex.res.violations, v)
	}
	// continue under the assumption that c holds
	ex.addPC(c)
	ex.modelOK = false
	if !ex.ensureModel() {
		ex.fail(stStop, "assertion fails on every continuation")
	}
}

// ---------- running one path ----------

func (p *Program) runPath(h *Harness, solver *Solver, item workItem, trace bool) (res *PathResult) {
	ex := &Exec{
		prog: p, st: NewStore(), solver: solver, em: NewEmitter(),
		journal: append([]Decision(nil), item.prefix...), replayN: len(item.prefix),
		cow: map[*Object]*Object{}, cowMaps: map[*MapObj]*MapObj{},
		nextObj: p.initObjs, nextMap: p.initMaps, maxSteps: h.MaxSteps, harness: h,
		funcs: map[*ssa.Function]bool{}, locks: map[lockKey]int{}, known: h.Known,
		strCache: map[string]*Object{}, trace: trace, deadline: p.pathDeadline(),
	}
	ex.res = &PathResult{reach: map[string]bool{}}
	if h.Concrete != nil {
		ex.concrete, ex.concVals = true, h.Concrete
	}
	if item.model != nil {
		ex.model, ex.modelOK = item.model, true
	}
	solver.Send("(reset)\n(set-option :produce-models true)\n")
	t0 := time.Now()
	_ = t0
	defer func() {
		r := recover()
		res = ex.res
		res.steps = ex.steps
		for f := range ex.funcs {
			p.noteFunc(f)
		}
		switch x := r.(type) {
		case nil:
			res.status = stOK
		case pathEnd:
			res.status, res.msg = x.status, x.msg
		case targetPanic:
			res.status = stPanic
			res.msg = ex.describePanic(x.v)
		default:
			panic(r)
		}
		if ex.jpos < ex.replayN && res.status != stInfeasible {
			// path ended before consuming its prefix: engine nondeterminism
			if res.status == stOK {
				res.status = stInconclusive
				res.msg = "replay prefix not consumed (engine nondeterminism)"
			}
		}
		ex.finishPath()
	}()
	ex.callFunction(h.Fn, nil, nil)
	ex.runPendingGoroutines()
	return
}

// finishPath turns terminal statuses into violations and records a sample.
func (ex *Exec) finishPath() {
	res := ex.res
	needModel := false
	switch res.status {
	case stPanic:
		if !ex.expectPanic {
			needModel = true
		}
	case stUnsafe, stDeadlock, stOutOfModel:
		needModel = true
	case stOK:
		if len(ex.inputs) > 0 && ex.prog.wantSample() {
			needModel = true
		}
	}
	if !needModel {
		return
	}
	defer func() {
		if r := recover(); r != nil {
			if pe, ok := r.(pathEnd); ok {
				if pe.status == stInfeasible {
					res.status = stInfeasible
					return
				}
				res.status, res.msg = stInconclusive, "model for terminal state: "+pe.msg
				return
			}
			panic(r)
		}
	}()
	if ex.jpos < ex.replayN {
		ex.modelOK = false
	}
	if !ex.ensureModel() {
		res.status = stInfeasible
		return
	}
	ins := ex.modelInputs(ex.model)
	switch res.status {
	case stPanic:
		res.violations = append(res.violations, Violation{Kind: "panic", Label: "panic", Msg: res.msg, Inputs: ins, Prefix: ex.journal[:ex.jpos]})
	case stUnsafe:
		res.violations = append(res.violations, Violation{Kind: "unsafe", Label: "unsafe", Msg: res.msg, Inputs: ins, Prefix: ex.journal[:ex.jpos]})
	case stDeadlock:
		res.violations = append(res.violations, Violation{Kind: "deadlock", Label: "deadlock", Msg: res.msg, Inputs: ins, Prefix: ex.journal[:ex.jpos]})
	case stOutOfModel:
		// not a verdict: reported so that the input reaching unmodelled code can be inspected
		res.violations = append(res.violations, Violation{Kind: "out-of-model", Label: "out-of-model", Msg: res.msg, Inputs: ins, Prefix: ex.journal[:ex.jpos]})
	case stOK:
		res.sample = ins
	}
}

func (ex *Exec) describePanic(v Value) string {
	if i, ok := v.(Iface); ok {
		if s, ok := i.v.(Str); ok {
			if g, ok := ex.concreteString(s); ok {
				return g
			}
		}
		if i.t != nil {
			return fmt.Sprintf("panic(%v)", i.t)
		}
	}
	return fmt.Sprintf("panic(%T)", v)
}

var debugConcretize = os.Getenv("GOSYM_DEBUG_CONC") != ""

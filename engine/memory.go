package main

import (
	"fmt"
	"go/types"
	"math"
	"sort"
)

// ---------- allocation / COW ----------

func (ex *Exec) newObject(size int64, label string) *Object {
	ex.nextObj++
	o := &Object{id: ex.nextObj, size: size, cells: map[int64]cell{}, label: label, shared: ex.initPhase}
	return o
}

func (ex *Exec) newBytesObject(b []byte, label string) *Object {
	o := ex.newObject(int64(len(b)), label)
	o.base = b
	return o
}

// r0 resolves an object for reading without flushing its symbolic write log.
func (ex *Exec) r0(o *Object) *Object {
	if o.shared && !ex.initPhase {
		if c, ok := ex.cow[o]; ok {
			return c
		}
	}
	return o
}

// w0 resolves an object for writing (copy-on-write for init-phase objects).
func (ex *Exec) w0(o *Object) *Object {
	if o.shared && !ex.initPhase {
		if c, ok := ex.cow[o]; ok {
			return c
		}
		c := o.clone()
		ex.cow[o] = c
		return c
	}
	return o
}

// r resolves an object for reading; a pending symbolic write log is flushed
// (its offsets concretised, forking) because the caller is not log-aware.
func (ex *Exec) r(o *Object) *Object {
	o = ex.r0(o)
	if len(o.sym) > 0 {
		o = ex.w0(o)
		ex.flushSym(o)
	}
	return o
}

func (ex *Exec) w(o *Object) *Object {
	o = ex.w0(o)
	if len(o.sym) > 0 {
		ex.flushSym(o)
	}
	return o
}

// symCell is one entry of an object's symbolic write log: an aligned n-byte
// numeric store at a symbolic offset. Newer entries shadow older ones and the
// concrete cell layer.
type symCell struct {
	off *Term
	n   int
	v   *Term
}

func (ex *Exec) flushSym(o *Object) {
	log := o.sym
	o.sym = nil
	for _, sc := range log {
		k := int64(ex.concretize(sc.off))
		ex.storeCellC(o, k, sc.n, sc.v)
	}
}

func (ex *Exec) mapR(m *MapObj) *MapObj {
	if m != nil && m.shared && !ex.initPhase {
		if c, ok := ex.cowMaps[m]; ok {
			return c
		}
	}
	return m
}

func (ex *Exec) mapW(m *MapObj) *MapObj {
	if m.shared && !ex.initPhase {
		if c, ok := ex.cowMaps[m]; ok {
			return c
		}
		c := &MapObj{id: m.id, kt: m.kt}
		for _, e := range m.entries {
			if !e.deleted {
				c.entries = append(c.entries, &mapEntry{k: e.k, v: e.v})
			}
		}
		ex.cowMaps[m] = c
		return c
	}
	return m
}

// ---------- byte-level access ----------

func (ex *Exec) extractByte(v Value, d int) *Term {
	switch x := v.(type) {
	case *Term:
		if x.w == 0 {
			if d != 0 {
				return mkConst(8, 0)
			}
			return ex.st.BoolToBV(x, 8)
		}
		return ex.st.Extract(x, uint8(8*d+7), uint8(8*d))
	case Float:
		return mkConst(8, floatBits(x)>>(8*uint(d)))
	case nil:
		return mkConst(8, 0)
	}
	panic(pathEnd{stOutOfModel, fmt.Sprintf("byte access to non-numeric cell (%T) in %s", v, ex.where())})
}

func (ex *Exec) byteAt(o *Object, off int64) *Term {
	for d := int64(0); d < 16; d++ {
		if c, ok := o.cells[off-d]; ok {
			if d < int64(c.w) {
				return ex.extractByte(c.v, int(d))
			}
		}
	}
	if o.base != nil {
		return mkConst(8, uint64(o.base[off]))
	}
	return mkConst(8, 0)
}

// clearRange removes cells overlapping [off, off+n), exploding partial overlaps.
func (ex *Exec) clearRange(o *Object, off, n int64) {
	if len(o.cells) == 0 {
		return
	}
	if int64(len(o.cells)) < n+16 {
		// iterate cells
		var keys []int64
		for k, c := range o.cells {
			if k < off+n && k+int64(c.w) > off {
				keys = append(keys, k)
			}
		}
		sort.Slice(keys, func(i, j int) bool { return keys[i] < keys[j] })
		for _, k := range keys {
			ex.clearCell(o, k, off, n)
		}
		return
	}
	for k := off - 15; k < off+n; k++ {
		if _, ok := o.cells[k]; ok {
			ex.clearCell(o, k, off, n)
		}
	}
}

func (ex *Exec) clearCell(o *Object, k, off, n int64) {
	c, ok := o.cells[k]
	if !ok {
		return
	}
	end := k + int64(c.w)
	if end <= off || k >= off+n {
		return
	}
	if k >= off && end <= off+n {
		delete(o.cells, k)
		return
	}
	// partial: explode into bytes outside the range
	delete(o.cells, k)
	for d := int64(0); d < int64(c.w); d++ {
		p := k + d
		if p >= off && p < off+n {
			continue
		}
		var bv Value
		switch c.v.(type) {
		case *Term, Float, nil:
			bv = ex.extractByte(c.v, int(d))
		default:
			bv = Opaque{"torn pointer cell"}
		}
		o.cells[p] = cell{1, bv}
	}
}

func (ex *Exec) checkAccess(o *Object, off, n int64, write bool) {
	if o.dead {
		panic(pathEnd{stUnsafe, fmt.Sprintf("access to unmapped/poisoned %v", o)})
	}
	if off < 0 || off+n > o.size {
		panic(pathEnd{stUnsafe, fmt.Sprintf("out-of-object access [%d,%d) of %v", off, off+n, o)})
	}
	if write && o.ro {
		panic(pathEnd{stUnsafe, fmt.Sprintf("write to read-only %v at %d", o, off)})
	}
}

// loadNumC loads an n-byte little-endian integer at a concrete offset.
func (ex *Exec) loadNumC(o *Object, off int64, n int) Value {
	ex.checkAccess(o, off, int64(n), false)
	if c, ok := o.cells[off]; ok && int(c.w) == n {
		switch x := c.v.(type) {
		case *Term:
			if x.w == 0 {
				return ex.st.BoolToBV(x, 8)
			}
			return x
		case Float:
			return mkConst(uint8(8*n), floatBits(x))
		case Ptr:
			if x.obj == nil {
				return zero64
			}
			return PtrInt{x}
		case PtrInt:
			return x
		case nil:
			return mkConst(uint8(8*n), 0)
		}
		panic(pathEnd{stOutOfModel, fmt.Sprintf("integer load of %T cell", c.v)})
	}
	if len(o.cells) == 0 && o.base != nil {
		var v uint64
		for i := n - 1; i >= 0; i-- {
			v = v<<8 | uint64(o.base[off+int64(i)])
		}
		return mkConst(uint8(8*n), v)
	}
	t := ex.byteAt(o, off+int64(n)-1)
	for i := n - 2; i >= 0; i-- {
		t = ex.st.Concat(t, ex.byteAt(o, off+int64(i)))
	}
	return t
}

func (ex *Exec) storeCellC(o *Object, off int64, n int, v Value) {
	ex.checkAccess(o, off, int64(n), true)
	ex.clearRange(o, off, int64(n))
	if o.base == nil && o.size >= 512 {
		if t, ok := v.(*Term); ok && t.op == OpConst && t.w != 0 {
			o.base = make([]byte, o.size)
		}
	}
	if o.base != nil {
		if t, ok := v.(*Term); ok && t.op == OpConst && t.w != 0 {
			for i := 0; i < n; i++ {
				o.base[off+int64(i)] = byte(t.k >> (8 * uint(i)))
			}
			return
		}
	}
	o.cells[off] = cell{uint8(n), v}
}

// ---------- symbolic offsets ----------

func alignOf(t *Term) int64 {
	if t.op == OpConst || t.op == OpVar {
		return alignOf1(t)
	}
	if t.algn != 0 {
		return t.algn
	}
	a := alignOf1(t)
	t.algn = a
	return a
}

func alignOf1(t *Term) int64 {
	switch t.op {
	case OpConst:
		if t.k == 0 {
			return 1 << 30
		}
		return int64(t.k & -t.k)
	case OpAdd, OpSub:
		a, b := alignOf(t.a), alignOf(t.b)
		if a < b {
			return a
		}
		return b
	case OpConcat:
		if t.b.op == OpConst && t.b.k == 0 {
			return int64(1) << t.b.w
		}
		return alignOf(t.b)
	case OpMul:
		a, b := alignOf(t.a), alignOf(t.b)
		if a > b {
			return a
		}
		return b
	case OpZExt, OpSExt:
		return alignOf(t.a)
	case OpIte:
		a, b := alignOf(t.b), alignOf(t.c)
		if a < b {
			return a
		}
		return b
	}
	return 1
}

const maxIteCands = 96

// resolveOffset returns the concrete offset for an access of n bytes, or
// (-1, candidates) when the access should be done as an ite-chain.
func (ex *Exec) resolveOffset(p Ptr, n int, numeric bool, write bool) (int64, []int64) {
	if p.obj == nil {
		ex.throwRuntime("invalid memory address or nil pointer dereference")
	}
	if v, ok := p.off.ConstVal(); ok {
		return int64(v), nil
	}
	o := ex.r(p.obj)
	if o.dead {
		panic(pathEnd{stUnsafe, fmt.Sprintf("access to unmapped/poisoned %v", o)})
	}
	// bounds obligation: off <= size-n (unsigned)
	if o.size < int64(n) {
		panic(pathEnd{stUnsafe, fmt.Sprintf("out-of-object access of %v", o)})
	}
	inb := ex.st.Ule(p.off, c64(o.size-int64(n)))
	if !ex.branch(inb) {
		panic(pathEnd{stUnsafe, fmt.Sprintf("out-of-object symbolic access of %v", o)})
	}
	if numeric && !write {
		if c := ex.sparseCands(o, n, alignOf(p.off)); c != nil {
			return -2, c
		}
	}
	if numeric {
		step := alignOf(p.off)
		if step > int64(n) {
			step = int64(n)
		}
		if step < 1 {
			step = 1
		}
		cnt := (o.size-int64(n))/step + 1
		if cnt <= maxIteCands {
			c := make([]int64, 0, cnt)
			for k := int64(0); k+int64(n) <= o.size; k += step {
				c = append(c, k)
			}
			return -1, c
		}
	}
	return int64(ex.concretize(p.off)), nil
}

// sparseCands: for a large object whose symbolic content is a few aligned
// n-byte cells over a uniform concrete background, a symbolic-offset read is
// an ite over those cells with the background as default. Returns the cell
// offsets followed by the background value's offset marker (-1 - bgOffset),
// or nil when the shape does not apply.
func (ex *Exec) sparseCands(o *Object, n int, align int64) []int64 {
	if align < int64(n) || o.size/int64(n) <= maxIteCands || len(o.cells) > maxIteCands {
		return nil
	}
	var offs []int64
	for k, c := range o.cells {
		if int(c.w) != n || k%int64(n) != 0 {
			return nil
		}
		if t, ok := c.v.(*Term); !ok || t.w == 0 {
			return nil
		}
		offs = append(offs, k)
	}
	sort.Slice(offs, func(i, j int) bool { return offs[i] < offs[j] })
	bg := int64(-1)
	if o.base != nil {
		var ref []byte
		for k := int64(0); k+int64(n) <= o.size; k += int64(n) {
			if _, covered := o.cells[k]; covered {
				continue
			}
			w := o.base[k : k+int64(n)]
			if ref == nil {
				ref = w
				bg = k
				continue
			}
			for i := range w {
				if w[i] != ref[i] {
					return nil
				}
			}
		}
	}
	if bg < 0 {
		// all-zero background: find any uncovered slot (or none)
		for k := int64(0); k+int64(n) <= o.size; k += int64(n) {
			if _, covered := o.cells[k]; !covered {
				bg = k
				break
			}
		}
	}
	if bg < 0 {
		return offs
	}
	return append(offs, -1-bg)
}

// tryLoadNumC is loadNumC that reports (nil,false) instead of aborting when
// the bytes belong to a non-numeric cell.
func (ex *Exec) tryLoadNumC(o *Object, off int64, n int) (v Value, ok bool) {
	defer func() {
		if r := recover(); r != nil {
			if pe, isPE := r.(pathEnd); isPE && pe.status == stOutOfModel {
				v, ok = nil, false
				return
			}
			panic(r)
		}
	}()
	return ex.loadNumC(o, off, n), true
}

// loadThroughLog reads an object that carries a symbolic write log.
func (ex *Exec) loadThroughLog(o *Object, p Ptr, n int) (Value, bool) {
	if alignOf(p.off) < int64(n) || o.dead {
		return nil, false
	}
	for _, sc := range o.sym {
		if sc.n != n {
			return nil, false
		}
	}
	var res *Term
	if k, ok := p.off.ConstVal(); ok {
		ex.checkAccess(o, int64(k), int64(n), false)
		v, isT := ex.loadNumC(o, int64(k), n).(*Term)
		if !isT {
			return nil, false
		}
		res = v
	} else {
		if o.size < int64(n) {
			return nil, false
		}
		cands := ex.sparseCands(o, n, alignOf(p.off))
		if cands == nil {
			return nil, false
		}
		if !ex.branch(ex.st.Ule(p.off, c64(o.size-int64(n)))) {
			panic(pathEnd{stUnsafe, fmt.Sprintf("out-of-object symbolic access of %v", o)})
		}
		res = ex.sparseRead(o, p.off, n, cands)
	}
	for _, sc := range o.sym {
		res = ex.st.Ite(ex.st.Eq(sc.off, p.off), sc.v, res)
	}
	return res, true
}

func (ex *Exec) sparseRead(o *Object, off *Term, n int, cands []int64) *Term {
	var res *Term
	if len(cands) > 0 {
		if last := cands[len(cands)-1]; last < 0 {
			res = ex.loadNumC(o, -1-last, n).(*Term)
			cands = cands[:len(cands)-1]
		}
	}
	for i := len(cands) - 1; i >= 0; i-- {
		v := ex.loadNumC(o, cands[i], n).(*Term)
		if res == nil {
			res = v
		} else {
			res = ex.st.Ite(ex.st.Eq(off, c64(cands[i])), v, res)
		}
	}
	if res == nil {
		res = mkConst(uint8(8*n), 0)
	}
	return res
}

func (ex *Exec) loadNum(p Ptr, n int) Value {
	if p.obj != nil {
		if o0 := ex.r0(p.obj); len(o0.sym) > 0 {
			if v, ok := ex.loadThroughLog(o0, p, n); ok {
				return v
			}
		}
	}
	off, cands := ex.resolveOffset(p, n, true, false)
	o := ex.r(p.obj)
	if cands == nil {
		return ex.loadNumC(o, off, n)
	}
	if off == -2 {
		var res *Term
		last := cands[len(cands)-1]
		if last < 0 {
			res = ex.loadNumC(o, -1-last, n).(*Term)
			cands = cands[:len(cands)-1]
		}
		for i := len(cands) - 1; i >= 0; i-- {
			v := ex.loadNumC(o, cands[i], n).(*Term)
			if res == nil {
				res = v
			} else {
				res = ex.st.Ite(ex.st.Eq(p.off, c64(cands[i])), v, res)
			}
		}
		return res
	}
	var res *Term
	for i := len(cands) - 1; i >= 0; i-- {
		cv, numeric := ex.tryLoadNumC(o, cands[i], n)
		if !numeric {
			// a pointer-holding slot: skip it when the offset cannot point there
			if r, _ := ex.query(ex.st.Eq(p.off, c64(cands[i]))); r == "unsat" {
				continue
			}
			return ex.loadNumC(o, int64(ex.concretize(p.off)), n)
		}
		v, ok := cv.(*Term)
		if !ok {
			return ex.loadNumC(o, int64(ex.concretize(p.off)), n)
		}
		if res == nil {
			res = v
		} else {
			res = ex.st.Ite(ex.st.Eq(p.off, c64(cands[i])), v, res)
		}
	}
	return res
}

// storeThroughLog appends an aligned numeric store to the symbolic write log
// of a large object instead of enumerating the offset.
func (ex *Exec) storeThroughLog(p Ptr, n int, v Value) bool {
	vt, ok := v.(*Term)
	if !ok || p.obj == nil {
		return false
	}
	o0 := ex.r0(p.obj)
	_, isC := p.off.ConstVal()
	if len(o0.sym) == 0 && (isC || o0.size/int64(n) <= maxIteCands) {
		return false
	}
	if alignOf(p.off) < int64(n) || len(o0.sym) >= 256 || o0.dead {
		return false
	}
	for _, sc := range o0.sym {
		if sc.n != n {
			return false
		}
	}
	if o0.ro {
		panic(pathEnd{stUnsafe, fmt.Sprintf("write to read-only %v", o0)})
	}
	if k, ok := p.off.ConstVal(); ok {
		ex.checkAccess(o0, int64(k), int64(n), true)
	} else {
		if o0.size < int64(n) {
			return false
		}
		if !ex.branch(ex.st.Ule(p.off, c64(o0.size-int64(n)))) {
			panic(pathEnd{stUnsafe, fmt.Sprintf("out-of-object symbolic access of %v", o0)})
		}
	}
	if vt.w == 0 {
		vt = ex.st.BoolToBV(vt, 8)
	}
	o := ex.w0(p.obj)
	o.sym = append(o.sym, symCell{p.off, n, vt})
	return true
}

func (ex *Exec) storeNum(p Ptr, n int, v Value) {
	if ex.storeThroughLog(p, n, v) {
		return
	}
	off, cands := ex.resolveOffset(p, n, true, true)
	o := ex.w(p.obj)
	if cands == nil {
		ex.storeCellC(o, off, n, v)
		return
	}
	vt, ok := v.(*Term)
	if !ok {
		ex.storeCellC(o, int64(ex.concretize(p.off)), n, v)
		return
	}
	if o.ro {
		panic(pathEnd{stUnsafe, fmt.Sprintf("write to read-only %v", o)})
	}
	if vt.w == 0 {
		vt = ex.st.BoolToBV(vt, 8)
	}
	olds := make([]*Term, len(cands))
	for i, k := range cands {
		cv, numeric := ex.tryLoadNumC(o, k, n)
		if !numeric {
			if r, _ := ex.query(ex.st.Eq(p.off, c64(k))); r == "unsat" {
				continue // pointer slot the offset cannot reach
			}
			ex.storeCellC(o, int64(ex.concretize(p.off)), n, v)
			return
		}
		ov, ok := cv.(*Term)
		if !ok {
			ex.storeCellC(o, int64(ex.concretize(p.off)), n, v)
			return
		}
		olds[i] = ov
	}
	for i, k := range cands {
		if olds[i] == nil {
			continue
		}
		nv := ex.st.Ite(ex.st.Eq(p.off, c64(k)), vt, olds[i])
		if nv != olds[i] {
			ex.storeCellC(o, k, n, nv)
		}
	}
}

// loadRef loads a non-numeric n-byte cell (pointer, map, func, iface ...).
func (ex *Exec) loadRef(p Ptr, n int) Value {
	off, _ := ex.resolveOffset(p, n, false, false)
	o := ex.r(p.obj)
	ex.checkAccess(o, off, int64(n), false)
	if c, ok := o.cells[off]; ok && int(c.w) == n {
		return c.v
	}
	// absent or mismatched: all-zero bytes mean nil
	for i := int64(0); i < int64(n); i++ {
		b := ex.byteAt(o, off+i)
		if v, ok := b.ConstVal(); !ok || v != 0 {
			panic(pathEnd{stOutOfModel, fmt.Sprintf("reference load from raw bytes in %v at %d", o, off)})
		}
	}
	return nil
}

func (ex *Exec) storeRef(p Ptr, n int, v Value) {
	off, _ := ex.resolveOffset(p, n, false, true)
	o := ex.w(p.obj)
	ex.storeCellC(o, off, n, v)
}

// ---------- typed load / store ----------

func ptrAdd(st *Store, p Ptr, d int64) Ptr {
	if d == 0 {
		return p
	}
	return Ptr{p.obj, st.Bin(OpAdd, p.off, c64(d))}
}

func (ex *Exec) load(t types.Type, p Ptr) Value {
	if p.obj == nil {
		ex.throwRuntime("invalid memory address or nil pointer dereference")
	}
	switch u := t.Underlying().(type) {
	case *types.Basic:
		if w, _, ok := isIntType(t); ok {
			v := ex.loadNum(p, int(w/8))
			if isUintptr(t) {
				return v
			}
			if pi, ok := v.(PtrInt); ok {
				_ = pi
				panic(pathEnd{stOutOfModel, "pointer read as plain integer"})
			}
			return v
		}
		switch {
		case u.Info()&types.IsBoolean != 0:
			off, _ := ex.resolveOffset(p, 1, false, false)
			o := ex.r(p.obj)
			ex.checkAccess(o, off, 1, false)
			if c, ok := o.cells[off]; ok && c.w == 1 {
				if bt, ok := c.v.(*Term); ok && bt.w == 0 {
					return bt
				}
			}
			b := ex.loadNumC(o, off, 1).(*Term)
			return ex.st.Not(ex.st.Eq(b, mkConst(8, 0)))
		case u.Info()&types.IsString != 0:
			pv := ex.loadPtrLeaf(p)
			ln := ex.loadNum(ptrAdd(ex.st, p, 8), 8).(*Term)
			return Str{pv, ln}
		case u.Kind() == types.UnsafePointer:
			return ex.loadPtrLeaf(p)
		case u.Kind() == types.Float64 || u.Kind() == types.Float32:
			n := 8
			if u.Kind() == types.Float32 {
				n = 4
			}
			off, _ := ex.resolveOffset(p, n, false, false)
			o := ex.r(p.obj)
			ex.checkAccess(o, off, int64(n), false)
			if c, ok := o.cells[off]; ok && int(c.w) == n {
				if f, ok := c.v.(Float); ok {
					return f
				}
			}
			bv := ex.loadNumC(o, off, n).(*Term)
			k, ok := bv.ConstVal()
			if !ok {
				panic(pathEnd{stOutOfModel, "symbolic float load"})
			}
			if n == 4 {
				return Float{f: float64(math.Float32frombits(uint32(k))), w: 32}
			}
			return Float{f: math.Float64frombits(k), w: 64}
		}
		panic(fmt.Sprintf("load: basic %v", u))
	case *types.Pointer:
		return ex.loadPtrLeaf(p)
	case *types.Map:
		v := ex.loadRef(p, 8)
		if v == nil {
			return (*MapObj)(nil)
		}
		return v
	case *types.Chan:
		v := ex.loadRef(p, 8)
		if v == nil {
			return (*ChanObj)(nil)
		}
		return v
	case *types.Signature:
		v := ex.loadRef(p, 8)
		if v == nil {
			return (*Closure)(nil)
		}
		return v
	case *types.Interface:
		v := ex.loadRef(p, 16)
		if v == nil {
			return Iface{}
		}
		return v
	case *types.Slice:
		pv := ex.loadPtrLeaf(p)
		ln := ex.loadNum(ptrAdd(ex.st, p, 8), 8).(*Term)
		cp := ex.loadNum(ptrAdd(ex.st, p, 16), 8).(*Term)
		return Slice{pv, ln, cp}
	case *types.Struct:
		offs := ex.prog.fieldOffsets(u)
		a := make(Agg, u.NumFields())
		for i := range a {
			a[i] = ex.load(u.Field(i).Type(), ptrAdd(ex.st, p, offs[i]))
		}
		return a
	case *types.Array:
		n := u.Len()
		if n > 1<<14 {
			panic(pathEnd{stOutOfModel, fmt.Sprintf("load of huge array value %v", t)})
		}
		es := sizeof(u.Elem())
		a := make(Agg, n)
		for i := int64(0); i < n; i++ {
			a[i] = ex.load(u.Elem(), ptrAdd(ex.st, p, i*es))
		}
		return a
	}
	panic(fmt.Sprintf("load: unhandled type %v", t))
}

func (ex *Exec) loadPtrLeaf(p Ptr) Ptr {
	off, _ := ex.resolveOffset(p, 8, false, false)
	o := ex.r(p.obj)
	ex.checkAccess(o, off, 8, false)
	if c, ok := o.cells[off]; ok && c.w == 8 {
		switch x := c.v.(type) {
		case Ptr:
			return x
		case PtrInt:
			return x.p
		case nil:
			return nilPtr()
		case *Term:
			if k, ok := x.ConstVal(); ok && k == 0 {
				return nilPtr()
			}
			panic(pathEnd{stOutOfModel, "pointer forged from integer"})
		}
		panic(pathEnd{stOutOfModel, fmt.Sprintf("pointer load of %T cell", c.v)})
	}
	v := ex.loadNumC(o, off, 8)
	if t, ok := v.(*Term); ok {
		if k, ok := t.ConstVal(); ok && k == 0 {
			return nilPtr()
		}
	}
	panic(pathEnd{stOutOfModel, fmt.Sprintf("pointer load from raw bytes of %v at %d", o, off)})
}

func (ex *Exec) store(t types.Type, p Ptr, v Value) {
	if p.obj == nil {
		ex.throwRuntime("invalid memory address or nil pointer dereference")
	}
	switch u := t.Underlying().(type) {
	case *types.Basic:
		if w, _, ok := isIntType(t); ok {
			switch x := v.(type) {
			case *Term:
				if x.w != w {
					panic(fmt.Sprintf("store width mismatch: %v gets w=%d", t, x.w))
				}
			case PtrInt:
			default:
				panic(fmt.Sprintf("store int: %T", v))
			}
			ex.storeNum(p, int(w/8), v)
			return
		}
		switch {
		case u.Info()&types.IsBoolean != 0:
			ex.storeNum(p, 1, v)
		case u.Info()&types.IsString != 0:
			s := v.(Str)
			ex.storeRef(p, 8, s.p)
			ex.storeNum(ptrAdd(ex.st, p, 8), 8, s.len)
		case u.Kind() == types.UnsafePointer:
			ex.storeRef(p, 8, v)
		case u.Kind() == types.Float64:
			ex.storeRef(p, 8, v)
		case u.Kind() == types.Float32:
			ex.storeRef(p, 4, v)
		default:
			panic(fmt.Sprintf("store: basic %v", u))
		}
	case *types.Pointer, *types.Map, *types.Chan, *types.Signature:
		ex.storeRef(p, 8, v)
	case *types.Interface:
		ex.storeRef(p, 16, v)
	case *types.Slice:
		s := v.(Slice)
		ex.storeRef(p, 8, s.p)
		ex.storeNum(ptrAdd(ex.st, p, 8), 8, s.len)
		ex.storeNum(ptrAdd(ex.st, p, 16), 8, s.cap)
	case *types.Struct:
		offs := ex.prog.fieldOffsets(u)
		a := v.(Agg)
		for i := range a {
			ex.store(u.Field(i).Type(), ptrAdd(ex.st, p, offs[i]), a[i])
		}
	case *types.Array:
		a := v.(Agg)
		es := sizeof(u.Elem())
		for i := range a {
			ex.store(u.Elem(), ptrAdd(ex.st, p, int64(i)*es), a[i])
		}
	default:
		panic(fmt.Sprintf("store: unhandled type %v", t))
	}
}

// memmove copies n bytes at cell granularity (any cell kinds).
func (ex *Exec) memmove(dst Ptr, src Ptr, n int64) {
	if n == 0 {
		return
	}
	if dst.obj == nil || src.obj == nil {
		ex.throwRuntime("nil pointer dereference in copy")
	}
	doff := int64(ex.concretize(dst.off))
	soff := int64(ex.concretize(src.off))
	so := ex.r(src.obj)
	ex.checkAccess(so, soff, n, false)
	do := ex.w(dst.obj)
	ex.checkAccess(do, doff, n, true)
	so = ex.r(src.obj) // may be the same object after COW
	if so == do && soff == doff {
		return
	}
	// snapshot source cells in range (exploding partial overlaps virtually)
	type sc struct {
		rel int64
		c   cell
	}
	var cells []sc
	collect := func(k int64, c cell) {
		end := k + int64(c.w)
		if end <= soff || k >= soff+n {
			return
		}
		if k >= soff && end <= soff+n {
			cells = append(cells, sc{k - soff, c})
			return
		}
		for d := int64(0); d < int64(c.w); d++ {
			q := k + d
			if q >= soff && q < soff+n {
				var bv Value
				switch c.v.(type) {
				case *Term, Float, nil:
					bv = ex.extractByte(c.v, int(d))
				default:
					bv = Opaque{"torn pointer cell"}
				}
				cells = append(cells, sc{q - soff, cell{1, bv}})
			}
		}
	}
	if int64(len(so.cells)) < n+16 {
		for k, c := range so.cells {
			collect(k, c)
		}
	} else {
		for k := soff - 15; k < soff+n; k++ {
			if c, ok := so.cells[k]; ok {
				collect(k, c)
			}
		}
	}
	var sbase []byte
	if so.base != nil {
		sbase = append([]byte(nil), so.base[soff:soff+n]...)
	}
	ex.clearRange(do, doff, n)
	if sbase != nil {
		if do.base == nil {
			do.base = make([]byte, do.size)
		}
		copy(do.base[doff:], sbase)
	} else if do.base != nil {
		for i := int64(0); i < n; i++ {
			do.base[doff+i] = 0
		}
	}
	for _, c := range cells {
		do.cells[doff+c.rel] = c.c
	}
}

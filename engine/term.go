package main

// Hash-consed SMT term DAG with eager constant folding and local
// simplification. Sorts: Bool (w==0) and bit-vectors of width 1..64.

import (
	"fmt"
	"math/bits"
	"strings"
)

type Op uint8

const (
	OpConst Op = iota
	OpVar
	OpNot
	OpAnd
	OpOr
	OpIte
	OpEq
	OpUlt
	OpUle
	OpSlt
	OpSle
	OpBvNot
	OpBvNeg
	OpBvAnd
	OpBvOr
	OpBvXor
	OpAdd
	OpSub
	OpMul
	OpUDiv
	OpURem
	OpSDiv
	OpSRem
	OpShl
	OpLShr
	OpAShr
	OpConcat
	OpExtract
	OpZExt
	OpSExt
	OpApp
)

var opNames = [...]string{"const", "var", "not", "and", "or", "ite", "=", "bvult", "bvule", "bvslt", "bvsle",
	"bvnot", "bvneg", "bvand", "bvor", "bvxor", "bvadd", "bvsub", "bvmul", "bvudiv", "bvurem", "bvsdiv", "bvsrem",
	"bvshl", "bvlshr", "bvashr", "concat", "extract", "zero_extend", "sign_extend", "app"}

// Term is an immutable SMT term. w==0 means Bool.
type Term struct {
	op      Op
	w       uint8
	id      int32 // unique within a store for non-constants; -1 for constants
	a, b, c *Term
	k       uint64 // constant value; or hi<<8|lo for extract
	name    string // var / UF name
	args    []*Term
	blen    uint8 // memo for bitLen (value+1; 0 = not computed)
	algn    int64 // memo for alignOf (0 = not computed)
}

func (t *Term) IsConst() bool { return t.op == OpConst }
func (t *Term) IsBool() bool  { return t.w == 0 }

// Constants are store-independent.
var (
	tTrue  = &Term{op: OpConst, w: 0, id: -1, k: 1}
	tFalse = &Term{op: OpConst, w: 0, id: -1, k: 0}
)

func mask(w uint8) uint64 {
	if w >= 64 {
		return ^uint64(0)
	}
	return (uint64(1) << w) - 1
}

func mkBool(b bool) *Term {
	if b {
		return tTrue
	}
	return tFalse
}

var smallConsts [65][256]*Term

func init() {
	for w := 1; w <= 64; w++ {
		for v := 0; v < 256; v++ {
			smallConsts[w][v] = &Term{op: OpConst, w: uint8(w), id: -1, k: uint64(v) & mask(uint8(w))}
		}
	}
	zero64, one64 = mkConst(64, 0), mkConst(64, 1)
}

func mkConst(w uint8, v uint64) *Term {
	if w == 0 {
		return mkBool(v&1 == 1)
	}
	v &= mask(w)
	if v < 256 {
		return smallConsts[w][v]
	}
	return &Term{op: OpConst, w: w, id: -1, k: v}
}

func (t *Term) ConstVal() (uint64, bool) {
	if t.op == OpConst {
		return t.k, true
	}
	return 0, false
}

func (t *Term) isTrue() bool  { return t.op == OpConst && t.w == 0 && t.k == 1 }
func (t *Term) isFalse() bool { return t.op == OpConst && t.w == 0 && t.k == 0 }

func sext64(v uint64, w uint8) int64 {
	if w >= 64 {
		return int64(v)
	}
	sh := 64 - uint(w)
	return int64(v<<sh) >> sh
}

type ckey struct {
	id int32
	w  uint8
	k  uint64
}

type tkey struct {
	op      Op
	w       uint8
	a, b, c ckey
	k       uint64
	name    string
}

// Store is a per-path hash-consing table.
type Store struct {
	tab    map[tkey]*Term
	apps   map[string]*Term
	nextID int32
	vars   []*Term
	ufs    map[string]ufDecl
}

type ufDecl struct {
	argw []uint8
	w    uint8
}

func NewStore() *Store {
	return &Store{tab: make(map[tkey]*Term, 1024), apps: map[string]*Term{}, ufs: map[string]ufDecl{}}
}

func ck(t *Term) ckey {
	if t == nil {
		return ckey{id: -2}
	}
	if t.op == OpConst {
		return ckey{id: -1, w: t.w, k: t.k}
	}
	return ckey{id: t.id}
}

func (s *Store) intern(op Op, w uint8, a, b, c *Term, k uint64, name string) *Term {
	key := tkey{op, w, ck(a), ck(b), ck(c), k, name}
	if t, ok := s.tab[key]; ok {
		return t
	}
	t := &Term{op: op, w: w, id: s.nextID, a: a, b: b, c: c, k: k, name: name}
	s.nextID++
	s.tab[key] = t
	return t
}

// Var creates (or returns) a named variable.
func (s *Store) Var(name string, w uint8) *Term {
	key := tkey{op: OpVar, w: w, name: name, a: ckey{id: -2}, b: ckey{id: -2}, c: ckey{id: -2}}
	if t, ok := s.tab[key]; ok {
		return t
	}
	t := &Term{op: OpVar, w: w, id: s.nextID, name: name}
	s.nextID++
	s.tab[key] = t
	s.vars = append(s.vars, t)
	return t
}

// App creates an uninterpreted function application.
func (s *Store) App(fn string, w uint8, args ...*Term) *Term {
	var sb strings.Builder
	sb.WriteString(fn)
	for _, a := range args {
		if a.op == OpConst {
			fmt.Fprintf(&sb, "|c%d:%d", a.w, a.k)
		} else {
			fmt.Fprintf(&sb, "|%d", a.id)
		}
	}
	key := sb.String()
	if t, ok := s.apps[key]; ok {
		return t
	}
	if _, ok := s.ufs[fn]; !ok {
		d := ufDecl{w: w}
		for _, a := range args {
			d.argw = append(d.argw, a.w)
		}
		s.ufs[fn] = d
	}
	t := &Term{op: OpApp, w: w, id: s.nextID, name: fn, args: append([]*Term(nil), args...)}
	s.nextID++
	s.apps[key] = t
	return t
}

// ---------- boolean constructors ----------

func (s *Store) Not(a *Term) *Term {
	if a.op == OpConst {
		return mkBool(a.k == 0)
	}
	if a.op == OpNot {
		return a.a
	}
	return s.intern(OpNot, 0, a, nil, nil, 0, "")
}

func (s *Store) And(a, b *Term) *Term {
	if a.op == OpConst {
		if a.k == 0 {
			return tFalse
		}
		return b
	}
	if b.op == OpConst {
		if b.k == 0 {
			return tFalse
		}
		return a
	}
	if a == b {
		return a
	}
	if (a.op == OpNot && a.a == b) || (b.op == OpNot && b.a == a) {
		return tFalse
	}
	if a.id > b.id {
		a, b = b, a
	}
	return s.intern(OpAnd, 0, a, b, nil, 0, "")
}

func (s *Store) Or(a, b *Term) *Term {
	if a.op == OpConst {
		if a.k == 1 {
			return tTrue
		}
		return b
	}
	if b.op == OpConst {
		if b.k == 1 {
			return tTrue
		}
		return a
	}
	if a == b {
		return a
	}
	if (a.op == OpNot && a.a == b) || (b.op == OpNot && b.a == a) {
		return tTrue
	}
	if a.id > b.id {
		a, b = b, a
	}
	return s.intern(OpOr, 0, a, b, nil, 0, "")
}

func (s *Store) Ite(c, a, b *Term) *Term {
	if c.op == OpConst {
		if c.k == 1 {
			return a
		}
		return b
	}
	if a == b {
		return a
	}
	if a.op == OpConst && b.op == OpConst && a.w == b.w && a.k == b.k {
		return a
	}
	if a.w != b.w {
		panic(fmt.Sprintf("ite width mismatch %d %d", a.w, b.w))
	}
	if a.w == 0 {
		// boolean ite
		if a.op == OpConst && b.op == OpConst {
			if a.k == 1 {
				return c
			}
			return s.Not(c)
		}
		if a.op == OpConst {
			if a.k == 1 {
				return s.Or(c, b)
			}
			return s.And(s.Not(c), b)
		}
		if b.op == OpConst {
			if b.k == 1 {
				return s.Or(s.Not(c), a)
			}
			return s.And(c, a)
		}
	}
	if c.op == OpNot {
		return s.Ite(c.a, b, a)
	}
	return s.intern(OpIte, a.w, c, a, b, 0, "")
}

func (s *Store) Eq(a, b *Term) *Term {
	if a.w != b.w {
		panic(fmt.Sprintf("eq width mismatch %d %d", a.w, b.w))
	}
	if a == b {
		return tTrue
	}
	if a.op == OpConst && b.op == OpConst {
		return mkBool(a.k == b.k)
	}
	if a.w == 0 {
		if a.op == OpConst {
			if a.k == 1 {
				return b
			}
			return s.Not(b)
		}
		if b.op == OpConst {
			if b.k == 1 {
				return a
			}
			return s.Not(a)
		}
	}
	if a.op == OpConst {
		a, b = b, a
	}
	// eq(ite(c,k1,k2),k3)
	if b.op == OpConst && a.op == OpIte && a.b.op == OpConst && a.c.op == OpConst {
		t1, t2 := a.b.k == b.k, a.c.k == b.k
		switch {
		case t1 && t2:
			return tTrue
		case t1:
			return a.a
		case t2:
			return s.Not(a.a)
		default:
			return tFalse
		}
	}
	// eq(zext(x), k)
	if b.op == OpConst && a.op == OpZExt {
		if b.k > mask(a.a.w) {
			return tFalse
		}
		return s.Eq(a.a, mkConst(a.a.w, b.k))
	}
	// eq(concat(hi,lo), k)
	if b.op == OpConst && a.op == OpConcat {
		lo := a.b
		hi := a.a
		return s.And(s.Eq(hi, mkConst(hi.w, b.k>>lo.w)), s.Eq(lo, mkConst(lo.w, b.k)))
	}
	// eq(x+k1, k2) -> eq(x, k2-k1)
	if b.op == OpConst && a.op == OpAdd && a.b.op == OpConst {
		return s.Eq(a.a, mkConst(a.w, b.k-a.b.k))
	}
	if b.op != OpConst && a.id > b.id {
		a, b = b, a
	}
	return s.intern(OpEq, 0, a, b, nil, 0, "")
}

func (s *Store) cmp(op Op, a, b *Term) *Term {
	if a.w != b.w {
		panic(fmt.Sprintf("cmp width mismatch %d %d", a.w, b.w))
	}
	if a.op == OpConst && b.op == OpConst {
		switch op {
		case OpUlt:
			return mkBool(a.k < b.k)
		case OpUle:
			return mkBool(a.k <= b.k)
		case OpSlt:
			return mkBool(sext64(a.k, a.w) < sext64(b.k, b.w))
		case OpSle:
			return mkBool(sext64(a.k, a.w) <= sext64(b.k, b.w))
		}
	}
	if a == b {
		return mkBool(op == OpUle || op == OpSle)
	}
	switch op {
	case OpUlt:
		if b.op == OpConst && b.k == 0 {
			return tFalse
		}
		if a.op == OpConst && a.k == mask(a.w) {
			return tFalse
		}
		// zext(x) < k with k > max(x)
		if a.op == OpZExt && b.op == OpConst && b.k > mask(a.a.w) {
			return tTrue
		}
		if a.op == OpZExt && b.op == OpZExt && a.a.w == b.a.w {
			return s.cmp(OpUlt, a.a, b.a)
		}
		if a.op == OpZExt && b.op == OpConst {
			return s.cmp(OpUlt, a.a, mkConst(a.a.w, b.k))
		}
	case OpUle:
		if a.op == OpConst && a.k == 0 {
			return tTrue
		}
		if b.op == OpConst && b.k == mask(b.w) {
			return tTrue
		}
		if a.op == OpZExt && b.op == OpConst && b.k >= mask(a.a.w) {
			return tTrue
		}
		if a.op == OpZExt && b.op == OpZExt && a.a.w == b.a.w {
			return s.cmp(OpUle, a.a, b.a)
		}
	case OpSlt:
		// zext values are non-negative when widened
		if a.op == OpZExt && b.op == OpZExt && a.a.w == b.a.w {
			return s.cmp(OpUlt, a.a, b.a)
		}
		if a.op == OpZExt && a.a.w < a.w && b.op == OpConst {
			bv := sext64(b.k, b.w)
			if bv <= 0 {
				return tFalse
			}
			if uint64(bv) > mask(a.a.w) {
				return tTrue
			}
			return s.cmp(OpUlt, a.a, mkConst(a.a.w, uint64(bv)))
		}
		if b.op == OpZExt && b.a.w < b.w && a.op == OpConst {
			av := sext64(a.k, a.w)
			if av < 0 {
				return tTrue
			}
			if uint64(av) >= mask(b.a.w) {
				return tFalse
			}
			return s.cmp(OpUlt, mkConst(b.a.w, uint64(av)), b.a)
		}
	case OpSle:
		if a.op == OpZExt && b.op == OpZExt && a.a.w == b.a.w {
			return s.cmp(OpUle, a.a, b.a)
		}
		if a.op == OpZExt && a.a.w < a.w && b.op == OpConst {
			bv := sext64(b.k, b.w)
			if bv < 0 {
				return tFalse
			}
			if uint64(bv) >= mask(a.a.w) {
				return tTrue
			}
			return s.cmp(OpUle, a.a, mkConst(a.a.w, uint64(bv)))
		}
		if b.op == OpZExt && b.a.w < b.w && a.op == OpConst {
			av := sext64(a.k, a.w)
			if av <= 0 {
				return tTrue
			}
			if uint64(av) > mask(b.a.w) {
				return tFalse
			}
			return s.cmp(OpUle, mkConst(b.a.w, uint64(av)), b.a)
		}
	}
	return s.intern(op, 0, a, b, nil, 0, "")
}

func (s *Store) Ult(a, b *Term) *Term { return s.cmp(OpUlt, a, b) }
func (s *Store) Ule(a, b *Term) *Term { return s.cmp(OpUle, a, b) }
func (s *Store) Slt(a, b *Term) *Term { return s.cmp(OpSlt, a, b) }
func (s *Store) Sle(a, b *Term) *Term { return s.cmp(OpSle, a, b) }

// ---------- bit-vector constructors ----------

func foldBin(op Op, w uint8, x, y uint64) (uint64, bool) {
	m := mask(w)
	switch op {
	case OpBvAnd:
		return x & y, true
	case OpBvOr:
		return x | y, true
	case OpBvXor:
		return x ^ y, true
	case OpAdd:
		return (x + y) & m, true
	case OpSub:
		return (x - y) & m, true
	case OpMul:
		return (x * y) & m, true
	case OpUDiv:
		if y == 0 {
			return m, true
		}
		return x / y, true
	case OpURem:
		if y == 0 {
			return x, true
		}
		return x % y, true
	case OpSDiv:
		sx, sy := sext64(x, w), sext64(y, w)
		if sy == 0 {
			if sx < 0 {
				return 1, true
			}
			return m, true
		}
		if sy == -1 {
			return uint64(-sx) & m, true
		}
		return uint64(sx/sy) & m, true
	case OpSRem:
		sx, sy := sext64(x, w), sext64(y, w)
		if sy == 0 {
			return x, true
		}
		if sy == -1 {
			return 0, true
		}
		return uint64(sx%sy) & m, true
	case OpShl:
		if y >= uint64(w) {
			return 0, true
		}
		return (x << y) & m, true
	case OpLShr:
		if y >= uint64(w) {
			return 0, true
		}
		return x >> y, true
	case OpAShr:
		sx := sext64(x, w)
		if y >= uint64(w) {
			y = uint64(w) - 1
		}
		return uint64(sx>>y) & m, true
	}
	return 0, false
}

func (s *Store) Bin(op Op, a, b *Term) *Term {
	if a.w != b.w || a.w == 0 {
		panic(fmt.Sprintf("bin %s width mismatch %d %d", opNames[op], a.w, b.w))
	}
	w := a.w
	if a.op == OpConst && b.op == OpConst {
		if v, ok := foldBin(op, w, a.k, b.k); ok {
			return mkConst(w, v)
		}
	}
	m := mask(w)
	switch op {
	case OpBvAnd:
		if a.op == OpConst {
			a, b = b, a
		}
		if b.op == OpConst {
			if b.k == 0 {
				return b
			}
			if b.k == m {
				return a
			}
			// and(zext(x), k) where k covers all of x
			if a.op == OpZExt && b.k&mask(a.a.w) == mask(a.a.w) {
				return a
			}
			// low-bit mask: and(x, 2^n-1) -> zext(extract(x))
			if b.k&(b.k+1) == 0 {
				n := uint8(bits.Len64(b.k))
				return s.ZExt(s.Extract(a, n-1, 0), w)
			}
			if a.op == OpBvAnd && a.b.op == OpConst {
				return s.Bin(OpBvAnd, a.a, mkConst(w, a.b.k&b.k))
			}
		}
		if a == b {
			return a
		}
	case OpBvOr:
		if a.op == OpConst {
			a, b = b, a
		}
		if b.op == OpConst {
			if b.k == 0 {
				return a
			}
			if b.k == m {
				return b
			}
		}
		if a == b {
			return a
		}
		if r := s.disjointMerge(a, b); r != nil {
			return r
		}
	case OpBvXor:
		if a.op == OpConst {
			a, b = b, a
		}
		if b.op == OpConst && b.k == 0 {
			return a
		}
		if a == b {
			return mkConst(w, 0)
		}
		if r := s.disjointMerge(a, b); r != nil {
			return r
		}
	case OpAdd:
		if a.op == OpConst {
			a, b = b, a
		}
		if b.op == OpConst {
			if b.k == 0 {
				return a
			}
			if a.op == OpAdd && a.b.op == OpConst {
				return s.Bin(OpAdd, a.a, mkConst(w, a.b.k+b.k))
			}
			if a.op == OpSub && a.b.op == OpConst {
				return s.Bin(OpAdd, a.a, mkConst(w, b.k-a.b.k))
			}
		}
		if r := s.disjointMerge(a, b); r != nil {
			return r
		}
	case OpSub:
		if b.op == OpConst {
			if b.k == 0 {
				return a
			}
			return s.Bin(OpAdd, a, mkConst(w, -b.k))
		}
		if a == b {
			return mkConst(w, 0)
		}
		// (x + k) - x
		if a.op == OpAdd && a.a == b && a.b.op == OpConst {
			return a.b
		}
		// (x + k1) - (x + k2)
		if a.op == OpAdd && b.op == OpAdd && a.a == b.a && a.b.op == OpConst && b.b.op == OpConst {
			return mkConst(w, a.b.k-b.b.k)
		}
		// x - (x + k)
		if b.op == OpAdd && b.a == a && b.b.op == OpConst {
			return mkConst(w, -b.b.k)
		}
	case OpMul:
		if a.op == OpConst {
			a, b = b, a
		}
		if b.op == OpConst {
			if b.k == 0 {
				return b
			}
			if b.k == 1 {
				return a
			}
			if b.k&(b.k-1) == 0 {
				return s.Bin(OpShl, a, mkConst(w, uint64(bits.TrailingZeros64(b.k))))
			}
		}
	case OpUDiv:
		if b.op == OpConst {
			if b.k == 1 {
				return a
			}
			if b.k != 0 && b.k&(b.k-1) == 0 {
				return s.Bin(OpLShr, a, mkConst(w, uint64(bits.TrailingZeros64(b.k))))
			}
		}
	case OpURem:
		if b.op == OpConst && b.k != 0 && b.k&(b.k-1) == 0 {
			return s.Bin(OpBvAnd, a, mkConst(w, b.k-1))
		}
	case OpShl:
		if b.op == OpConst {
			if b.k == 0 {
				return a
			}
			if b.k >= uint64(w) {
				return mkConst(w, 0)
			}
			// shl(x,n) = concat(extract(x, w-n-1, 0), 0_n)
			n := uint8(b.k)
			return s.Concat(s.Extract(a, w-n-1, 0), mkConst(n, 0))
		}
		if a.op == OpConst && a.k == 0 {
			return a
		}
	case OpLShr:
		if b.op == OpConst {
			if b.k == 0 {
				return a
			}
			if b.k >= uint64(w) {
				return mkConst(w, 0)
			}
			n := uint8(b.k)
			return s.ZExt(s.Extract(a, w-1, n), w)
		}
		if a.op == OpConst && a.k == 0 {
			return a
		}
	case OpAShr:
		if b.op == OpConst {
			if b.k == 0 {
				return a
			}
			n := b.k
			if n >= uint64(w) {
				n = uint64(w) - 1
			}
			return s.SExt(s.Extract(a, w-1, uint8(n)), w)
		}
	}
	return s.intern(op, w, a, b, nil, 0, "")
}

// bitLen is an upper bound on the number of significant low bits of t.
func bitLen(t *Term) uint8 {
	switch t.op {
	case OpConst:
		return uint8(bits.Len64(t.k))
	case OpZExt:
		return bitLen(t.a)
	case OpConcat:
		h := bitLen(t.a)
		if h == 0 {
			return bitLen(t.b)
		}
		return h + t.b.w
	case OpIte:
		// memoised: ite DAGs share sub-terms heavily
		if t.blen != 0 {
			return t.blen - 1
		}
		x, y := bitLen(t.b), bitLen(t.c)
		if x < y {
			x = y
		}
		t.blen = x + 1
		return x
	}
	return t.w
}

// lowZeros is a lower bound on the number of low bits of t known to be zero.
func lowZeros(t *Term) uint8 {
	switch t.op {
	case OpConst:
		if t.k == 0 {
			return t.w
		}
		return uint8(bits.TrailingZeros64(t.k))
	case OpConcat:
		l := lowZeros(t.b)
		if l == t.b.w {
			return l + lowZeros(t.a)
		}
		return l
	case OpZExt:
		l := lowZeros(t.a)
		if l > t.a.w {
			l = t.a.w
		}
		return l
	}
	return 0
}

// disjointMerge rewrites a|b (or a+b, a^b) as a concat when the operands
// occupy disjoint bit ranges (byte assembly such as b0 | b1<<8).
func (s *Store) disjointMerge(a, b *Term) *Term {
	w := a.w
	if n := lowZeros(b); n > 0 && n < w && bitLen(a) <= n {
		return s.Concat(s.Extract(b, w-1, n), s.Extract(a, n-1, 0))
	}
	if n := lowZeros(a); n > 0 && n < w && bitLen(b) <= n {
		return s.Concat(s.Extract(a, w-1, n), s.Extract(b, n-1, 0))
	}
	return nil
}

func (s *Store) BvNot(a *Term) *Term {
	if a.op == OpConst {
		return mkConst(a.w, ^a.k)
	}
	if a.op == OpBvNot {
		return a.a
	}
	return s.intern(OpBvNot, a.w, a, nil, nil, 0, "")
}

func (s *Store) BvNeg(a *Term) *Term {
	if a.op == OpConst {
		return mkConst(a.w, -a.k)
	}
	if a.op == OpBvNeg {
		return a.a
	}
	return s.intern(OpBvNeg, a.w, a, nil, nil, 0, "")
}

func (s *Store) Concat(hi, lo *Term) *Term {
	w := int(hi.w) + int(lo.w)
	if w > 64 {
		panic("concat wider than 64")
	}
	if hi.op == OpConst && lo.op == OpConst {
		return mkConst(uint8(w), hi.k<<lo.w|lo.k)
	}
	// concat(extract(x,h,m+1), extract(x,m,l)) -> extract(x,h,l)
	if hi.op == OpExtract && lo.op == OpExtract && hi.a == lo.a {
		hh, hl := uint8(hi.k>>8), uint8(hi.k)
		lh, ll := uint8(lo.k>>8), uint8(lo.k)
		if hl == lh+1 {
			return s.Extract(hi.a, hh, ll)
		}
	}
	// concat(0, x) -> zext
	if hi.op == OpConst && hi.k == 0 {
		return s.ZExt(lo, uint8(w))
	}
	// concat(hi, concat(m, l)) where hi,m fuse
	if lo.op == OpConcat && hi.op == OpExtract && lo.a.op == OpExtract && hi.a == lo.a.a {
		hh, hl := uint8(hi.k>>8), uint8(hi.k)
		lh, ll := uint8(lo.a.k>>8), uint8(lo.a.k)
		if hl == lh+1 {
			return s.Concat(s.Extract(hi.a, hh, ll), lo.b)
		}
	}
	if lo.op == OpConcat && hi.op == OpConst && lo.a.op == OpConst {
		return s.Concat(mkConst(hi.w+lo.a.w, hi.k<<lo.a.w|lo.a.k), lo.b)
	}
	return s.intern(OpConcat, uint8(w), hi, lo, nil, 0, "")
}

func (s *Store) Extract(a *Term, hi, lo uint8) *Term {
	if hi < lo || hi >= a.w {
		panic(fmt.Sprintf("bad extract [%d:%d] of w=%d", hi, lo, a.w))
	}
	w := hi - lo + 1
	if w == a.w {
		return a
	}
	switch a.op {
	case OpConst:
		return mkConst(w, a.k>>lo)
	case OpExtract:
		il := uint8(a.k)
		return s.Extract(a.a, hi+il, lo+il)
	case OpConcat:
		lw := a.b.w
		if hi < lw {
			return s.Extract(a.b, hi, lo)
		}
		if lo >= lw {
			return s.Extract(a.a, hi-lw, lo-lw)
		}
		return s.Concat(s.Extract(a.a, hi-lw, 0), s.Extract(a.b, lw-1, lo))
	case OpZExt:
		iw := a.a.w
		if hi < iw {
			return s.Extract(a.a, hi, lo)
		}
		if lo >= iw {
			return mkConst(w, 0)
		}
		return s.ZExt(s.Extract(a.a, iw-1, lo), w)
	case OpSExt:
		iw := a.a.w
		if hi < iw {
			return s.Extract(a.a, hi, lo)
		}
		if lo == 0 {
			return s.SExt(a.a, w)
		}
	case OpIte:
		if a.b.op == OpConst && a.c.op == OpConst {
			return s.Ite(a.a, s.Extract(a.b, hi, lo), s.Extract(a.c, hi, lo))
		}
	case OpBvAnd, OpBvOr, OpBvXor:
		// push extract through bitwise ops when one side is constant
		if a.b.op == OpConst || a.a.op == OpConst {
			return s.Bin(a.op, s.Extract(a.a, hi, lo), s.Extract(a.b, hi, lo))
		}
	case OpAdd, OpSub, OpMul:
		if lo == 0 {
			// low bits of arithmetic depend only on low bits of operands
			return s.Bin(a.op, s.Extract(a.a, hi, 0), s.Extract(a.b, hi, 0))
		}
	}
	return s.intern(OpExtract, w, a, nil, nil, uint64(hi)<<8|uint64(lo), "")
}

func (s *Store) ZExt(a *Term, w uint8) *Term {
	if w == a.w {
		return a
	}
	if w < a.w {
		panic("zext to narrower")
	}
	if a.op == OpConst {
		return mkConst(w, a.k)
	}
	if a.op == OpZExt {
		return s.ZExt(a.a, w)
	}
	return s.intern(OpZExt, w, a, nil, nil, 0, "")
}

func (s *Store) SExt(a *Term, w uint8) *Term {
	if w == a.w {
		return a
	}
	if w < a.w {
		panic("sext to narrower")
	}
	if a.op == OpConst {
		return mkConst(w, uint64(sext64(a.k, a.w)))
	}
	if a.op == OpZExt && a.a.w < a.w {
		return s.ZExt(a.a, w)
	}
	if a.op == OpSExt {
		return s.SExt(a.a, w)
	}
	return s.intern(OpSExt, w, a, nil, nil, 0, "")
}

// Resize converts to width w: truncating, or extending per signedness.
func (s *Store) Resize(a *Term, w uint8, signed bool) *Term {
	switch {
	case w == a.w:
		return a
	case w < a.w:
		return s.Extract(a, w-1, 0)
	case signed:
		return s.SExt(a, w)
	default:
		return s.ZExt(a, w)
	}
}

// BoolToBV returns ite(b,1,0) of width w.
func (s *Store) BoolToBV(b *Term, w uint8) *Term {
	return s.Ite(b, mkConst(w, 1), mkConst(w, 0))
}

// ---------- evaluation under a model ----------

// Model maps variable names (and canonical UF application strings) to values.
type Model map[string]uint64

type evalCtx struct {
	m       Model
	memo    map[*Term]uint64
	ok      bool
	lenient bool // variables missing from the model are unconstrained: read as 0
}

// Eval evaluates t under m. ok=false if a needed value is missing.
func Eval(t *Term, m Model) (uint64, bool) {
	if t.op == OpConst {
		return t.k, true
	}
	c := &evalCtx{m: m, memo: map[*Term]uint64{}, ok: true}
	v := c.eval(t)
	return v, c.ok
}

func appKey(t *Term) string { return fmt.Sprintf("t%d", t.id) }

func (c *evalCtx) eval(t *Term) uint64 {
	if t.op == OpConst {
		return t.k
	}
	if v, ok := c.memo[t]; ok {
		return v
	}
	var v uint64
	switch t.op {
	case OpVar:
		x, ok := c.m[t.name]
		if !ok && !c.lenient {
			c.ok = false
		}
		v = x & mask(t.w)
		if t.w == 0 {
			v = x & 1
		}
	case OpApp:
		x, ok := c.m[appKey(t)]
		if !ok {
			c.ok = false
		}
		v = x & mask(t.w)
	case OpNot:
		v = c.eval(t.a) ^ 1
	case OpAnd:
		v = c.eval(t.a) & c.eval(t.b)
	case OpOr:
		v = c.eval(t.a) | c.eval(t.b)
	case OpIte:
		if c.eval(t.a) == 1 {
			v = c.eval(t.b)
		} else {
			v = c.eval(t.c)
		}
	case OpEq:
		v = b2u(c.eval(t.a) == c.eval(t.b))
	case OpUlt:
		v = b2u(c.eval(t.a) < c.eval(t.b))
	case OpUle:
		v = b2u(c.eval(t.a) <= c.eval(t.b))
	case OpSlt:
		v = b2u(sext64(c.eval(t.a), t.a.w) < sext64(c.eval(t.b), t.b.w))
	case OpSle:
		v = b2u(sext64(c.eval(t.a), t.a.w) <= sext64(c.eval(t.b), t.b.w))
	case OpBvNot:
		v = ^c.eval(t.a) & mask(t.w)
	case OpBvNeg:
		v = -c.eval(t.a) & mask(t.w)
	case OpConcat:
		v = c.eval(t.a)<<t.b.w | c.eval(t.b)
	case OpExtract:
		hi, lo := uint8(t.k>>8), uint8(t.k)
		v = (c.eval(t.a) >> lo) & mask(hi-lo+1)
	case OpZExt:
		v = c.eval(t.a)
	case OpSExt:
		v = uint64(sext64(c.eval(t.a), t.a.w)) & mask(t.w)
	default:
		x, y := c.eval(t.a), c.eval(t.b)
		r, ok := foldBin(t.op, t.w, x, y)
		if !ok {
			panic("eval: unknown op " + opNames[t.op])
		}
		v = r
	}
	c.memo[t] = v
	return v
}

func b2u(b bool) uint64 {
	if b {
		return 1
	}
	return 0
}

// ---------- SMT-LIB printing ----------

func sortStr(w uint8) string {
	if w == 0 {
		return "Bool"
	}
	return fmt.Sprintf("(_ BitVec %d)", w)
}

func constStr(t *Term) string {
	if t.w == 0 {
		if t.k == 1 {
			return "true"
		}
		return "false"
	}
	if t.w%4 == 0 {
		return fmt.Sprintf("#x%0*x", int(t.w/4), t.k)
	}
	return fmt.Sprintf("(_ bv%d %d)", t.k, t.w)
}

// Emitter writes definitions for terms into a solver scope.
type Emitter struct {
	done map[*Term]string
	ufs  map[string]bool
	out  *strings.Builder
}

func NewEmitter() *Emitter {
	return &Emitter{done: map[*Term]string{}, ufs: map[string]bool{}, out: &strings.Builder{}}
}

// Name returns an SMT expression naming t, appending any needed
// declarations/definitions to e.out. Iterative post-order to avoid deep
// recursion on long chains.
func (e *Emitter) Name(s *Store, t *Term) string {
	if t.op == OpConst {
		return constStr(t)
	}
	if n, ok := e.done[t]; ok {
		return n
	}
	type fr struct {
		t    *Term
		next int
	}
	stack := []fr{{t, 0}}
	kids := func(x *Term) []*Term {
		if x.op == OpApp {
			return x.args
		}
		var k []*Term
		if x.a != nil {
			k = append(k, x.a)
		}
		if x.b != nil {
			k = append(k, x.b)
		}
		if x.c != nil {
			k = append(k, x.c)
		}
		return k
	}
	for len(stack) > 0 {
		top := &stack[len(stack)-1]
		ks := kids(top.t)
		pushed := false
		for top.next < len(ks) {
			k := ks[top.next]
			top.next++
			if k.op == OpConst {
				continue
			}
			if _, ok := e.done[k]; ok {
				continue
			}
			stack = append(stack, fr{k, 0})
			pushed = true
			break
		}
		if pushed {
			continue
		}
		x := top.t
		stack = stack[:len(stack)-1]
		if _, ok := e.done[x]; ok {
			continue
		}
		e.define(s, x)
	}
	return e.done[t]
}

func (e *Emitter) ref(t *Term) string {
	if t.op == OpConst {
		return constStr(t)
	}
	return e.done[t]
}

func (e *Emitter) define(s *Store, x *Term) {
	switch x.op {
	case OpVar:
		n := "|" + x.name + "|"
		fmt.Fprintf(e.out, "(declare-const %s %s)\n", n, sortStr(x.w))
		e.done[x] = n
		return
	case OpApp:
		if !e.ufs[x.name] {
			e.ufs[x.name] = true
			d := s.ufs[x.name]
			var as []string
			for _, w := range d.argw {
				as = append(as, sortStr(w))
			}
			fmt.Fprintf(e.out, "(declare-fun %s (%s) %s)\n", x.name, strings.Join(as, " "), sortStr(d.w))
		}
		var as []string
		for _, a := range x.args {
			as = append(as, e.ref(a))
		}
		n := fmt.Sprintf("t%d", x.id)
		fmt.Fprintf(e.out, "(define-fun %s () %s (%s %s))\n", n, sortStr(x.w), x.name, strings.Join(as, " "))
		e.done[x] = n
		return
	}
	var body string
	switch x.op {
	case OpNot, OpBvNot, OpBvNeg:
		body = fmt.Sprintf("(%s %s)", opNames[x.op], e.ref(x.a))
	case OpIte:
		body = fmt.Sprintf("(ite %s %s %s)", e.ref(x.a), e.ref(x.b), e.ref(x.c))
	case OpExtract:
		body = fmt.Sprintf("((_ extract %d %d) %s)", uint8(x.k>>8), uint8(x.k), e.ref(x.a))
	case OpZExt, OpSExt:
		body = fmt.Sprintf("((_ %s %d) %s)", opNames[x.op], x.w-x.a.w, e.ref(x.a))
	default:
		body = fmt.Sprintf("(%s %s %s)", opNames[x.op], e.ref(x.a), e.ref(x.b))
	}
	n := fmt.Sprintf("t%d", x.id)
	fmt.Fprintf(e.out, "(define-fun %s () %s %s)\n", n, sortStr(x.w), body)
	e.done[x] = n
}

// Flush returns and clears pending text.
func (e *Emitter) Flush() string {
	s := e.out.String()
	e.out.Reset()
	return s
}

// String renders a term for debugging (tree form, truncated).
func (t *Term) String() string {
	var sb strings.Builder
	t.str(&sb, 0)
	return sb.String()
}

func (t *Term) str(sb *strings.Builder, depth int) {
	if sb.Len() > 400 {
		sb.WriteString("…")
		return
	}
	switch t.op {
	case OpConst:
		if t.w == 0 {
			sb.WriteString(constStr(t))
		} else {
			fmt.Fprintf(sb, "%d", t.k)
		}
	case OpVar:
		sb.WriteString(t.name)
	case OpApp:
		sb.WriteString("(" + t.name)
		for _, a := range t.args {
			sb.WriteString(" ")
			a.str(sb, depth+1)
		}
		sb.WriteString(")")
	case OpExtract:
		fmt.Fprintf(sb, "(extract[%d:%d] ", uint8(t.k>>8), uint8(t.k))
		t.a.str(sb, depth+1)
		sb.WriteString(")")
	default:
		sb.WriteString("(" + opNames[t.op])
		if t.op == OpZExt || t.op == OpSExt {
			fmt.Fprintf(sb, "%d", t.w)
		}
		for _, k := range []*Term{t.a, t.b, t.c} {
			if k != nil {
				sb.WriteString(" ")
				k.str(sb, depth+1)
			}
		}
		sb.WriteString(")")
	}
}

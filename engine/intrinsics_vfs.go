package main

// An in-memory file system for the whole-file helpers the metadata code
// uses: os/ioutil ReadFile, WriteFile, Rename, MkdirAll, Remove(All),
// IsNotExist. Paths must be concrete; contents are ordinary (possibly
// symbolic) byte objects. Each call is one completed file-system operation;
// nothing is lost or reordered (clean-restart model, not the crash model).

import (
	"strings"

	"golang.org/x/tools/go/ssa"
)

type vfsFile struct {
	obj *Object
	n   int64
}

// open handles: the *os.File object -> path
var vfsHandleLabel = "vfs-handle:"

func (ex *Exec) vfsHandlePath(v Value) (string, bool) {
	p, ok := v.(Ptr)
	if !ok || p.obj == nil || !strings.HasPrefix(p.obj.label, vfsHandleLabel) {
		return "", false
	}
	return p.obj.label[len(vfsHandleLabel):], true
}

func (ex *Exec) vfsOpen(name string) Value {
	o := ex.newObject(64, vfsHandleLabel+name)
	return Ptr{o, zero64}
}

func (ex *Exec) vfsPath(v Value) string {
	s, ok := ex.concreteString(v.(Str))
	if !ok {
		panic(pathEnd{stOutOfModel, "file path is not concrete"})
	}
	return s
}

func (ex *Exec) vfsNotExist() Value {
	if ex.vfsErr == nil {
		ex.vfsErr = ex.newError(ex.constString("verif vfs: file does not exist"))
	}
	return ex.vfsErr
}

func init() {
	reg(func(ex *Exec, fn *ssa.Function, args []Value, caller *frame) Value {
		name := ex.vfsPath(args[0])
		p, n := sliceBytes(ex, args[1])
		o := ex.newObject(n+1, "vfs:"+name)
		if n > 0 {
			ex.memmove(Ptr{o, zero64}, p, n)
		}
		if ex.vfs == nil {
			ex.vfs = map[string]vfsFile{}
		}
		ex.vfs[name] = vfsFile{o, n}
		return Iface{}
	}, "io/ioutil.WriteFile", "os.WriteFile")
	reg(func(ex *Exec, fn *ssa.Function, args []Value, caller *frame) Value {
		name := ex.vfsPath(args[0])
		f, ok := ex.vfs[name]
		if !ok {
			return Tuple{Slice{nilPtr(), zero64, zero64}, ex.vfsNotExist()}
		}
		o := ex.newObject(f.n+1, "vfs-read:"+name)
		if f.n > 0 {
			ex.memmove(Ptr{o, zero64}, Ptr{f.obj, zero64}, f.n)
		}
		return Tuple{Slice{Ptr{o, zero64}, c64(f.n), c64(f.n)}, Iface{}}
	}, "io/ioutil.ReadFile", "os.ReadFile")
	reg(func(ex *Exec, fn *ssa.Function, args []Value, caller *frame) Value {
		from, to := ex.vfsPath(args[0]), ex.vfsPath(args[1])
		f, ok := ex.vfs[from]
		if !ok {
			return ex.vfsNotExist()
		}
		delete(ex.vfs, from)
		ex.vfs[to] = f
		return Iface{}
	}, "os.Rename")
	reg(func(ex *Exec, fn *ssa.Function, args []Value, caller *frame) Value {
		return Iface{}
	}, "os.MkdirAll", "os.Mkdir")
	reg(func(ex *Exec, fn *ssa.Function, args []Value, caller *frame) Value {
		name := ex.vfsPath(args[0])
		for k := range ex.vfs {
			if k == name || strings.HasPrefix(k, name+"/") {
				delete(ex.vfs, k)
			}
		}
		return Iface{}
	}, "os.RemoveAll", "os.Remove")
	reg(func(ex *Exec, fn *ssa.Function, args []Value, caller *frame) Value {
		e, ok := args[0].(Iface)
		if !ok || e.t == nil || ex.vfsErr == nil {
			return mkBool(false)
		}
		a, ok1 := e.v.(Ptr)
		b, ok2 := ex.vfsErr.(Iface).v.(Ptr)
		return mkBool(ok1 && ok2 && a.obj == b.obj)
	}, "os.IsNotExist")
	// handles: OpenFile(create/truncate/append), Write, Close
	reg(func(ex *Exec, fn *ssa.Function, args []Value, caller *frame) Value {
		name := ex.vfsPath(args[0])
		flag := int64(ex.concretize(args[1].(*Term)))
		const oCreate, oTrunc = 0x40, 0x200
		if ex.vfs == nil {
			ex.vfs = map[string]vfsFile{}
		}
		_, ok := ex.vfs[name]
		if !ok && flag&oCreate == 0 {
			return Tuple{nilPtr(), ex.vfsNotExist()}
		}
		if !ok || flag&oTrunc != 0 {
			ex.vfs[name] = vfsFile{ex.newObject(1, "vfs:"+name), 0}
		}
		return Tuple{ex.vfsOpen(name), Iface{}}
	}, "os.OpenFile")
	reg(func(ex *Exec, fn *ssa.Function, args []Value, caller *frame) Value {
		name := ex.vfsPath(args[0])
		if _, ok := ex.vfs[name]; !ok {
			return Tuple{nilPtr(), ex.vfsNotExist()}
		}
		return Tuple{ex.vfsOpen(name), Iface{}}
	}, "os.Open")
	reg(func(ex *Exec, fn *ssa.Function, args []Value, caller *frame) Value {
		name, ok := ex.vfsHandlePath(args[0])
		p, n := sliceBytes(ex, args[1])
		if !ok {
			panic(pathEnd{stOutOfModel, "write to a file handle outside the in-memory file system"})
		}
		f := ex.vfs[name]
		o := ex.newObject(f.n+n+1, "vfs:"+name)
		if f.n > 0 {
			ex.memmove(Ptr{o, zero64}, Ptr{f.obj, zero64}, f.n)
		}
		if n > 0 {
			ex.memmove(Ptr{o, c64(f.n)}, p, n)
		}
		ex.vfs[name] = vfsFile{o, f.n + n}
		return Tuple{c64(n), Iface{}}
	}, "(*os.File).Write")
	reg(func(ex *Exec, fn *ssa.Function, args []Value, caller *frame) Value {
		return Iface{}
	}, "(*os.File).Close")
	// escape-analysis hint (pointer ^ 0): identity
	reg(func(ex *Exec, fn *ssa.Function, args []Value, caller *frame) Value {
		return args[0]
	}, "internal/abi.NoEscape", "strings.noescape", "internal/abi.Escape")
}

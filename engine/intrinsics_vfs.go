package main

// An in-memory file system for the file helpers the metadata and log code
// uses. Paths must be concrete; contents are ordinary (possibly symbolic)
// bytes in a fixed-capacity object per file ("inode"), written in place, so
// that a slice obtained through syscall.Mmap keeps aliasing the file, also
// across a rename. Handles carry a position and the O_APPEND flag.
// Each call is one completed file-system operation; nothing is lost or
// reordered (clean-restart model; crash models are built in the harnesses on
// top of recorded write boundaries).

import (
	"go/types"
	"sort"
	"strings"

	"golang.org/x/tools/go/ssa"
)

const vfsCap = 1 << 16

type vfsFile struct {
	obj *Object
	n   int64
}

type vfsHandle struct {
	f      *vfsFile
	pos    int64
	append bool
	dir    string // directory handle (f == nil)
}

func (ex *Exec) vfsPath(v Value) string {
	s, ok := ex.concreteString(v.(Str))
	if !ok {
		panic(pathEnd{stOutOfModel, "file path is not concrete"})
	}
	return s
}

func (ex *Exec) vfsNotExist() Value {
	if ex.vfsErr == nil {
		ex.vfsErr = ex.newError(ex.constString("verif vfs: file does not exist"))
	}
	return ex.vfsErr
}

func (ex *Exec) vfsNew(name string) *vfsFile {
	if ex.vfs == nil {
		ex.vfs = map[string]*vfsFile{}
	}
	f := &vfsFile{obj: ex.newObject(vfsCap, "vfs:"+name)}
	ex.vfs[name] = f
	ex.vfsMkdirAll(vfsParent(name))
	return f
}

func (ex *Exec) vfsWriteAt(f *vfsFile, off int64, p Ptr, n int64) {
	if off+n > vfsCap {
		panic(pathEnd{stOutOfModel, "file larger than the in-memory file system's capacity"})
	}
	if n > 0 {
		ex.memmove(Ptr{f.obj, c64(off)}, p, n)
	}
	if off+n > f.n {
		f.n = off + n
	}
}

func (ex *Exec) vfsTruncate(f *vfsFile, size int64) {
	if size < f.n {
		// zero the cut-off tail (a mapping of the file reads zeros there)
		z := ex.newObject(f.n-size, "vfs-zero")
		ex.memmove(Ptr{f.obj, c64(size)}, Ptr{z, zero64}, f.n-size)
	}
	f.n = size
}

func (ex *Exec) vfsOpen(f *vfsFile, appendMode bool) Value {
	o := ex.newObject(64, "vfs-handle")
	if ex.vfsH == nil {
		ex.vfsH = map[*Object]*vfsHandle{}
	}
	ex.vfsH[o] = &vfsHandle{f: f, append: appendMode}
	return Ptr{o, zero64}
}

func (ex *Exec) vfsHandleOf(v Value) *vfsHandle {
	p, ok := v.(Ptr)
	if !ok || p.obj == nil {
		return nil
	}
	return ex.vfsH[p.obj]
}

// vfsInfo builds an *os.fileStat laid out as the real type (name, size,
// mode), so that the real FileInfo methods work on it.
func (ex *Exec) vfsInfo(name string, size int64, isDir bool) Value {
	op := ex.prog.byPath["os"]
	if op == nil {
		panic(pathEnd{stOutOfModel, "package os not loaded"})
	}
	named := op.Type("fileStat").Type()
	st := named.Underlying().(*types.Struct)
	offs := ex.prog.fieldOffsets(st)
	o := ex.newObject(sizeof(named), "vfs-stat")
	for i := 0; i < st.NumFields(); i++ {
		f := st.Field(i)
		p := Ptr{o, c64(offs[i])}
		switch f.Name() {
		case "name":
			ex.store(f.Type(), p, ex.constString(name))
		case "size":
			ex.store(f.Type(), p, c64(size))
		case "mode":
			m := uint64(0644)
			if isDir {
				m = 1<<31 | 0755
			}
			ex.store(f.Type(), p, mkConst(32, m))
		}
	}
	return Iface{t: types.NewPointer(named), v: Ptr{o, zero64}}
}

func (ex *Exec) vfsStat(f *vfsFile) Value { return ex.vfsInfo("vfs-file", f.n, false) }

func vfsBase(p string) string {
	if i := strings.LastIndex(p, "/"); i >= 0 {
		return p[i+1:]
	}
	return p
}

func vfsParent(p string) string {
	if i := strings.LastIndex(p, "/"); i > 0 {
		return p[:i]
	}
	return ""
}

func (ex *Exec) vfsMkdirAll(p string) {
	if ex.vfsDirs == nil {
		ex.vfsDirs = map[string]bool{}
	}
	for p != "" && !ex.vfsDirs[p] {
		ex.vfsDirs[p] = true
		p = vfsParent(p)
	}
}

func init() {
	reg(func(ex *Exec, fn *ssa.Function, args []Value, caller *frame) Value {
		name := ex.vfsPath(args[0])
		p, n := sliceBytes(ex, args[1])
		f := ex.vfs[name]
		if f == nil {
			f = ex.vfsNew(name)
		}
		ex.vfsTruncate(f, 0)
		ex.vfsWriteAt(f, 0, p, n)
		return Iface{}
	}, "io/ioutil.WriteFile", "os.WriteFile")
	reg(func(ex *Exec, fn *ssa.Function, args []Value, caller *frame) Value {
		name := ex.vfsPath(args[0])
		f, ok := ex.vfs[name]
		if !ok {
			return Tuple{Slice{nilPtr(), zero64, zero64}, ex.vfsNotExist()}
		}
		o := ex.newObject(f.n+1, "vfs-read:"+name)
		if f.n > 0 {
			ex.memmove(Ptr{o, zero64}, Ptr{f.obj, zero64}, f.n)
		}
		return Tuple{Slice{Ptr{o, zero64}, c64(f.n), c64(f.n)}, Iface{}}
	}, "io/ioutil.ReadFile", "os.ReadFile")
	reg(func(ex *Exec, fn *ssa.Function, args []Value, caller *frame) Value {
		from, to := ex.vfsPath(args[0]), ex.vfsPath(args[1])
		f, ok := ex.vfs[from]
		if !ok {
			return ex.vfsNotExist()
		}
		delete(ex.vfs, from)
		ex.vfs[to] = f
		return Iface{}
	}, "os.Rename")
	reg(func(ex *Exec, fn *ssa.Function, args []Value, caller *frame) Value {
		ex.vfsMkdirAll(ex.vfsPath(args[0]))
		return Iface{}
	}, "os.MkdirAll", "os.Mkdir")
	reg(func(ex *Exec, fn *ssa.Function, args []Value, caller *frame) Value {
		name := ex.vfsPath(args[0])
		for k := range ex.vfs {
			if k == name || strings.HasPrefix(k, name+"/") {
				delete(ex.vfs, k)
			}
		}
		for k := range ex.vfsDirs {
			if k == name || strings.HasPrefix(k, name+"/") {
				delete(ex.vfsDirs, k)
			}
		}
		return Iface{}
	}, "os.RemoveAll", "os.Remove")
	reg(func(ex *Exec, fn *ssa.Function, args []Value, caller *frame) Value {
		e, ok := args[0].(Iface)
		if !ok || e.t == nil || ex.vfsErr == nil {
			return mkBool(false)
		}
		a, ok1 := e.v.(Ptr)
		b, ok2 := ex.vfsErr.(Iface).v.(Ptr)
		return mkBool(ok1 && ok2 && a.obj == b.obj)
	}, "os.IsNotExist")
	// handles
	reg(func(ex *Exec, fn *ssa.Function, args []Value, caller *frame) Value {
		name := ex.vfsPath(args[0])
		flag := int64(ex.concretize(args[1].(*Term)))
		const oCreate, oTrunc, oAppend = 0x40, 0x200, 0x400
		f, ok := ex.vfs[name]
		if !ok && flag&oCreate == 0 {
			return Tuple{nilPtr(), ex.vfsNotExist()}
		}
		if !ok {
			f = ex.vfsNew(name)
		} else if flag&oTrunc != 0 {
			ex.vfsTruncate(f, 0)
		}
		return Tuple{ex.vfsOpen(f, flag&oAppend != 0), Iface{}}
	}, "os.OpenFile")
	reg(func(ex *Exec, fn *ssa.Function, args []Value, caller *frame) Value {
		name := ex.vfsPath(args[0])
		f := ex.vfs[name]
		if f == nil {
			f = ex.vfsNew(name)
		}
		ex.vfsTruncate(f, 0)
		return Tuple{ex.vfsOpen(f, false), Iface{}}
	}, "os.Create")
	reg(func(ex *Exec, fn *ssa.Function, args []Value, caller *frame) Value {
		name := ex.vfsPath(args[0])
		f, ok := ex.vfs[name]
		if !ok {
			if ex.vfsDirs[name] {
				h := ex.vfsOpen(nil, false)
				ex.vfsH[h.(Ptr).obj].dir = name
				return Tuple{h, Iface{}}
			}
			return Tuple{nilPtr(), ex.vfsNotExist()}
		}
		return Tuple{ex.vfsOpen(f, false), Iface{}}
	}, "os.Open")
	// Readdir(n <= 0): every entry of the directory, sorted by name
	reg(func(ex *Exec, fn *ssa.Function, args []Value, caller *frame) Value {
		h := ex.vfsHandleOf(args[0])
		if h == nil || h.f != nil {
			panic(pathEnd{stOutOfModel, "Readdir on something that is not a directory of the in-memory file system"})
		}
		type ent struct {
			name string
			dir  bool
			size int64
		}
		var ents []ent
		for k, f := range ex.vfs {
			if vfsParent(k) == h.dir {
				ents = append(ents, ent{vfsBase(k), false, f.n})
			}
		}
		for k := range ex.vfsDirs {
			if vfsParent(k) == h.dir {
				ents = append(ents, ent{vfsBase(k), true, 0})
			}
		}
		sort.Slice(ents, func(i, j int) bool { return ents[i].name < ents[j].name })
		et := fn.Signature.Results().At(0).Type().Underlying().(*types.Slice).Elem()
		n := int64(len(ents))
		arr := ex.newObject(16*n+16, "vfs-readdir")
		for i, e := range ents {
			ex.store(et, Ptr{arr, c64(16 * int64(i))}, ex.vfsInfo(e.name, e.size, e.dir))
		}
		return Tuple{Slice{Ptr{arr, zero64}, c64(n), c64(n)}, Iface{}}
	}, "(*os.File).Readdir")
	reg(func(ex *Exec, fn *ssa.Function, args []Value, caller *frame) Value {
		h := ex.vfsHandleOf(args[0])
		p, n := sliceBytes(ex, args[1])
		if h == nil {
			panic(pathEnd{stOutOfModel, "write to a file handle outside the in-memory file system"})
		}
		off := h.pos
		if h.append {
			off = h.f.n
		}
		ex.vfsWriteAt(h.f, off, p, n)
		h.pos = off + n
		return Tuple{c64(n), Iface{}}
	}, "(*os.File).Write")
	reg(func(ex *Exec, fn *ssa.Function, args []Value, caller *frame) Value {
		h := ex.vfsHandleOf(args[0])
		if h == nil {
			panic(pathEnd{stOutOfModel, "truncate of a file handle outside the in-memory file system"})
		}
		ex.vfsTruncate(h.f, int64(ex.concretize(args[1].(*Term))))
		return Iface{}
	}, "(*os.File).Truncate")
	reg(func(ex *Exec, fn *ssa.Function, args []Value, caller *frame) Value {
		return Iface{}
	}, "(*os.File).Close")
	reg(func(ex *Exec, fn *ssa.Function, args []Value, caller *frame) Value {
		h := ex.vfsHandleOf(args[0])
		if h == nil {
			return c64(-1)
		}
		return c64(int64(args[0].(Ptr).obj.id))
	}, "(*os.File).Fd")
	reg(func(ex *Exec, fn *ssa.Function, args []Value, caller *frame) Value {
		h := ex.vfsHandleOf(args[0])
		if h == nil {
			panic(pathEnd{stOutOfModel, "stat of a file handle outside the in-memory file system"})
		}
		return Tuple{ex.vfsStat(h.f), Iface{}}
	}, "(*os.File).Stat")
	reg(func(ex *Exec, fn *ssa.Function, args []Value, caller *frame) Value {
		name := ex.vfsPath(args[0])
		f, ok := ex.vfs[name]
		if !ok {
			if ex.vfsDirs[name] {
				return Tuple{ex.vfsInfo(vfsBase(name), 0, true), Iface{}}
			}
			return Tuple{Iface{}, ex.vfsNotExist()}
		}
		return Tuple{ex.vfsInfo(vfsBase(name), f.n, false), Iface{}}
	}, "os.Stat")
	// syscall.Mmap(fd, offset, length, prot, flags): a view of the file's bytes
	reg(func(ex *Exec, fn *ssa.Function, args []Value, caller *frame) Value {
		fd := int(ex.concretize(args[0].(*Term)))
		n := int64(ex.concretize(args[2].(*Term)))
		for o, h := range ex.vfsH {
			if o.id == fd {
				if n > vfsCap {
					panic(pathEnd{stOutOfModel, "mapping larger than the in-memory file system's capacity"})
				}
				return Tuple{Slice{Ptr{h.f.obj, zero64}, c64(n), c64(n)}, Iface{}}
			}
		}
		panic(pathEnd{stOutOfModel, "mmap of a descriptor outside the in-memory file system"})
	}, "syscall.Mmap")
	reg(func(ex *Exec, fn *ssa.Function, args []Value, caller *frame) Value {
		return Iface{}
	}, "syscall.Munmap")
	// escape-analysis hint (pointer ^ 0): identity
	reg(func(ex *Exec, fn *ssa.Function, args []Value, caller *frame) Value {
		return args[0]
	}, "internal/abi.NoEscape", "strings.noescape", "internal/abi.Escape")
	// advisory file locks and paging advice: no effect on a single process model
	reg(func(ex *Exec, fn *ssa.Function, args []Value, caller *frame) Value {
		return Iface{}
	}, "syscall.Flock", "github.com/pilosa/pilosa.madvise")
	reg(func(ex *Exec, fn *ssa.Function, args []Value, caller *frame) Value {
		return ex.constString("vfs-file")
	}, "(*os.File).Name")
	// time.After / time.Tick: a channel on which nothing arrives within the
	// (sequential) run - timeouts never fire before the work they guard
	reg(func(ex *Exec, fn *ssa.Function, args []Value, caller *frame) Value {
		ex.nextMap++
		return &ChanObj{id: ex.nextMap, cap: 1}
	}, "time.After", "time.Tick")
	// positional I/O (bolt)
	reg(func(ex *Exec, fn *ssa.Function, args []Value, caller *frame) Value {
		h := ex.vfsHandleOf(args[0])
		p, n := sliceBytes(ex, args[1])
		off := int64(ex.concretize(args[2].(*Term)))
		if h == nil || h.f == nil {
			panic(pathEnd{stOutOfModel, "WriteAt on a file handle outside the in-memory file system"})
		}
		ex.vfsWriteAt(h.f, off, p, n)
		return Tuple{c64(n), Iface{}}
	}, "(*os.File).WriteAt")
	reg(func(ex *Exec, fn *ssa.Function, args []Value, caller *frame) Value {
		h := ex.vfsHandleOf(args[0])
		p, n := sliceBytes(ex, args[1])
		off := int64(ex.concretize(args[2].(*Term)))
		if h == nil || h.f == nil {
			panic(pathEnd{stOutOfModel, "ReadAt on a file handle outside the in-memory file system"})
		}
		m := h.f.n - off
		if m > n {
			m = n
		}
		if m < 0 {
			m = 0
		}
		if m > 0 {
			ex.memmove(p, Ptr{h.f.obj, c64(off)}, m)
		}
		if m < n {
			eof := ex.load(ex.prog.byPath["io"].Var("EOF").Type().(*types.Pointer).Elem(), Ptr{ex.prog.globalObj(ex, ex.prog.byPath["io"].Var("EOF")), zero64})
			return Tuple{c64(m), eof}
		}
		return Tuple{c64(m), Iface{}}
	}, "(*os.File).ReadAt")
	reg(func(ex *Exec, fn *ssa.Function, args []Value, caller *frame) Value {
		return c64(4096)
	}, "os.Getpagesize", "syscall.Getpagesize")
	reg(func(ex *Exec, fn *ssa.Function, args []Value, caller *frame) Value {
		return Iface{}
	}, "syscall.Fdatasync", "syscall.Fsync", "github.com/boltdb/bolt.madvise")
}

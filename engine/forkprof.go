package main

import (
	"fmt"
	"os"
	"sort"
	"sync"
)

// Fork-site profile (GOSYM_FORKPROF=1): which interpreted call stacks create
// the most alternatives.
var forkProfile = os.Getenv("GOSYM_FORKPROF") != ""

var forkMu sync.Mutex
var forkSites = map[string]int{}

func (p *Program) noteFork(where string) {
	forkMu.Lock()
	forkSites[where]++
	forkMu.Unlock()
}

func dumpForkProfile() {
	if !forkProfile {
		return
	}
	type kv struct {
		k string
		v int
	}
	var a []kv
	for k, v := range forkSites {
		a = append(a, kv{k, v})
	}
	sort.Slice(a, func(i, j int) bool { return a[i].v > a[j].v })
	for i, x := range a {
		if i >= 25 {
			break
		}
		fmt.Fprintf(os.Stderr, "fork-site %8d  %s\n", x.v, x.k)
	}
}

package main

import (
	"fmt"
	"go/token"
	"go/types"
	"os"
	"path/filepath"
	"sort"
	"strings"
	"sync"
	"sync/atomic"
	"time"

	"golang.org/x/tools/go/packages"
	"golang.org/x/tools/go/ssa"
	"golang.org/x/tools/go/ssa/ssautil"
)

type intrinsicFn func(ex *Exec, fn *ssa.Function, args []Value, caller *frame) Value

type Harness struct {
	Name         string
	Fn           *ssa.Function
	MaxSteps     int
	MaxDepth     int
	MaxPaths     int
	Known        map[string]bool
	ReverseMaps  bool
	OneShotChans bool
	AllowGo      bool
	Bounds       map[string]int
	Concrete     []uint64
}

type Program struct {
	prog  *ssa.Program
	pkgs  []*ssa.Package
	byPath map[string]*ssa.Package

	mu        sync.Mutex
	infos     map[*ssa.Function]*fnInfo
	globals   map[*ssa.Global]*Object
	offsets   map[*types.Struct][]int64
	implCache map[[2]types.Type]bool
	methCache map[methKey]*ssa.Function
	funcsSeen map[string]bool

	runtimeErrorType types.Type
	initObjs, initMaps int
	bounds    map[string]int
	initPkgs  map[string]bool
	samplesWanted int32
	sampleMu  sync.Mutex
	verbose   bool
	pathLimit time.Duration
	hardStop  time.Time
	fallbacks int64
}

func (p *Program) addFallback() { atomic.AddInt64(&p.fallbacks, 1) }

func (p *Program) pathDeadline() time.Time {
	d := time.Now().Add(p.pathLimit)
	if !p.hardStop.IsZero() && p.hardStop.Before(d) {
		return p.hardStop
	}
	return d
}

type methKey struct {
	t    types.Type
	name string
	pkg  *types.Package
}

// loadProgram loads the given packages of repoDir with harness overlays.
func loadProgram(repoDir string, pkgPatterns []string, overlay map[string][]byte, modfile string) (*Program, error) {
	cfg := &packages.Config{
		Mode: packages.NeedName | packages.NeedFiles | packages.NeedCompiledGoFiles | packages.NeedImports |
			packages.NeedDeps | packages.NeedTypes | packages.NeedSyntax | packages.NeedTypesInfo | packages.NeedTypesSizes | packages.NeedModule,
		Dir:     repoDir,
		Overlay: overlay,
		Env:     append(os.Environ(), "GOFLAGS=-mod=mod", "GOPROXY=off", "GOSUMDB=off", "GOTOOLCHAIN=local", "CGO_ENABLED=0"),
	}
	if modfile != "" {
		cfg.BuildFlags = []string{"-modfile=" + modfile}
	}
	initial, err := packages.Load(cfg, pkgPatterns...)
	if err != nil {
		return nil, err
	}
	nerr := 0
	packages.Visit(initial, nil, func(p *packages.Package) {
		for _, e := range p.Errors {
			if nerr < 20 {
				fmt.Fprintf(os.Stderr, "load error: %s: %v\n", p.PkgPath, e)
			}
			nerr++
		}
	})
	if nerr > 0 {
		return nil, fmt.Errorf("%d package load errors", nerr)
	}
	prog, pkgs := ssautil.AllPackages(initial, ssa.InstantiateGenerics)
	p := &Program{prog: prog, byPath: map[string]*ssa.Package{}, infos: map[*ssa.Function]*fnInfo{},
		globals: map[*ssa.Global]*Object{}, offsets: map[*types.Struct][]int64{}, implCache: map[[2]types.Type]bool{},
		methCache: map[methKey]*ssa.Function{}, funcsSeen: map[string]bool{}, bounds: map[string]int{}, initPkgs: map[string]bool{}}
	for _, sp := range pkgs {
		if sp != nil {
			p.pkgs = append(p.pkgs, sp)
		}
	}
	for _, sp := range prog.AllPackages() {
		p.byPath[sp.Pkg.Path()] = sp
	}
	// synthetic dynamic type for runtime errors
	tn := types.NewTypeName(token.NoPos, nil, "runtimeError", nil)
	p.runtimeErrorType = types.NewNamed(tn, types.Typ[types.String], nil)
	return p, nil
}

// builtPkgs: packages whose function bodies are complete. A dependency's
// bodies are built on first use; Build() is once-only and returns when the
// whole package is done, so no worker ever sees a half-built function (reading
// fn.Blocks of a package another worker is still building is a race).
var builtPkgs sync.Map

func ensureBuilt(pkg *ssa.Package) {
	if _, ok := builtPkgs.Load(pkg); ok {
		return
	}
	pkg.Build()
	builtPkgs.Store(pkg, true)
}

func (p *Program) info(fn *ssa.Function) *fnInfo {
	if fn.Pkg != nil {
		ensureBuilt(fn.Pkg)
	}
	p.mu.Lock()
	defer p.mu.Unlock()
	if i, ok := p.infos[fn]; ok {
		return i
	}
	i := p.buildInfo(fn)
	p.infos[fn] = i
	return i
}

func (p *Program) rebuildInfo(fn *ssa.Function) *fnInfo {
	p.mu.Lock()
	defer p.mu.Unlock()
	i := p.buildInfo(fn)
	p.infos[fn] = i
	return i
}

func (p *Program) buildInfo(fn *ssa.Function) *fnInfo {
	i := &fnInfo{idx: map[ssa.Value]int{}}
	add := func(v ssa.Value) {
		i.idx[v] = i.n
		i.n++
	}
	for _, x := range fn.Params {
		add(x)
	}
	for _, x := range fn.FreeVars {
		add(x)
	}
	for _, b := range fn.Blocks {
		for _, in := range b.Instrs {
			if v, ok := in.(ssa.Value); ok {
				add(v)
			}
		}
	}
	i.intrinsic = findIntrinsic(fn)
	return i
}

func (p *Program) noteFunc(fn *ssa.Function) {
	p.mu.Lock()
	p.funcsSeen[fn.String()] = true
	p.mu.Unlock()
}

func (p *Program) fieldOffsets(st *types.Struct) []int64 {
	p.mu.Lock()
	defer p.mu.Unlock()
	if o, ok := p.offsets[st]; ok {
		return o
	}
	fs := make([]*types.Var, st.NumFields())
	for i := range fs {
		fs[i] = st.Field(i)
	}
	o := stdSizes.Offsetsof(fs)
	p.offsets[st] = o
	return o
}

func (p *Program) implements(t types.Type, it *types.Interface) bool {
	key := [2]types.Type{t, it}
	p.mu.Lock()
	if r, ok := p.implCache[key]; ok {
		p.mu.Unlock()
		return r
	}
	p.mu.Unlock()
	var r bool
	if t == p.runtimeErrorType {
		// behaves as runtime.Error / error
		r = it.NumMethods() == 0 || (it.NumMethods() == 1 && it.Method(0).Name() == "Error")
	} else {
		r = types.Implements(t, it)
	}
	p.mu.Lock()
	p.implCache[key] = r
	p.mu.Unlock()
	return r
}

func (p *Program) lookupMethod(t types.Type, m *types.Func) *ssa.Function {
	key := methKey{t, m.Name(), m.Pkg()}
	p.mu.Lock()
	if f, ok := p.methCache[key]; ok {
		p.mu.Unlock()
		return f
	}
	p.mu.Unlock()
	var f *ssa.Function
	if t == p.runtimeErrorType {
		f = nil
	} else {
		f = p.prog.LookupMethod(t, m.Pkg(), m.Name())
	}
	p.mu.Lock()
	p.methCache[key] = f
	p.mu.Unlock()
	return f
}

func (p *Program) stdFunc(pkg, name string) *ssa.Function {
	sp := p.byPath[pkg]
	if sp == nil {
		panic(pathEnd{stOutOfModel, "package not loaded: " + pkg})
	}
	sp.Build()
	f := sp.Func(name)
	if f == nil {
		panic(pathEnd{stOutOfModel, "function not found: " + pkg + "." + name})
	}
	return f
}

func (p *Program) globalObj(ex *Exec, g *ssa.Global) *Object {
	p.mu.Lock()
	defer p.mu.Unlock()
	if o, ok := p.globals[g]; ok {
		return o
	}
	t := g.Type().Underlying().(*types.Pointer).Elem()
	p.initObjs++
	o := &Object{id: -p.initObjs - 1000000, size: sizeof(t), cells: map[int64]cell{}, label: "global:" + g.Name(), shared: true, elem: t}
	p.globals[g] = o
	return o
}

func (p *Program) wantSample() bool {
	p.sampleMu.Lock()
	defer p.sampleMu.Unlock()
	if p.samplesWanted > 0 {
		p.samplesWanted--
		return true
	}
	return false
}

// runInit executes package initialisers (concrete, once) for the target
// packages and a whitelist of dependencies.
func (p *Program) runInit(targets []string, solver *Solver) error {
	whitelist := []string{"io", "errors", "bytes", "bufio", "strconv", "unicode/utf8", "unicode", "encoding/binary", "sort", "strings",
		"math", "math/bits", "hash/fnv", "hash/crc32", "container/list", "container/heap", "context", "io/ioutil", "hash", "sync", "sync/atomic",
		"time", "internal/bytealg", "internal/byteorder", "internal/itoa", "unicode/utf16", "path", "path/filepath", "slices", "cmp", "maps",
		"github.com/pkg/errors", "internal/oserror", "io/fs", "encoding/base64", "github.com/boltdb/bolt"}
	for _, w := range whitelist {
		p.initPkgs[w] = true
	}
	for _, t := range targets {
		p.initPkgs[t] = true
	}
	for path := range p.byPath {
		if strings.HasPrefix(path, "github.com/pilosa/pilosa") {
			p.initPkgs[path] = true
		}
	}
	h := &Harness{Name: "init", MaxSteps: 50_000_000, MaxDepth: 1 << 20}
	ex := &Exec{prog: p, st: NewStore(), solver: solver, em: NewEmitter(), cow: map[*Object]*Object{}, cowMaps: map[*MapObj]*MapObj{},
		maxSteps: h.MaxSteps, harness: h, funcs: map[*ssa.Function]bool{}, locks: map[lockKey]int{}, initPhase: true, opaqueOK: true,
		strCache: map[string]*Object{}}
	ex.res = &PathResult{reach: map[string]bool{}}
	var err error
	func() {
		defer func() {
			if r := recover(); r != nil {
				switch x := r.(type) {
				case pathEnd:
					err = fmt.Errorf("init aborted: %s: %s", statusNames[x.status], x.msg)
				case targetPanic:
					err = fmt.Errorf("init panicked: %s", ex.describePanic(x.v))
				default:
					panic(r)
				}
			}
		}()
		var order []string
		for _, t := range targets {
			order = append(order, t)
		}
		sort.Strings(order)
		for _, t := range order {
			sp := p.byPath[t]
			if sp == nil {
				continue
			}
			sp.Build()
			if f := sp.Func("init"); f != nil {
				ex.callFunction(f, nil, nil)
			}
		}
	}()
	p.initObjs += ex.nextObj
	p.initMaps = ex.nextMap
	return err
}

// findHarnesses returns functions named Verif* in the target packages.
func (p *Program) findHarnesses(pkgPaths []string) map[string]*ssa.Function {
	out := map[string]*ssa.Function{}
	for _, pp := range pkgPaths {
		sp := p.byPath[pp]
		if sp == nil {
			continue
		}
		sp.Build()
		for name, m := range sp.Members {
			if f, ok := m.(*ssa.Function); ok && strings.HasPrefix(name, "Verif") {
				out[name] = f
			}
		}
	}
	return out
}

func absPath(p string) string {
	a, err := filepath.Abs(p)
	if err != nil {
		return p
	}
	return a
}

package main

// Precise fmt.Sprintf / fmt.Fprintf for callers in the pql package (Call.String
// is the subject of C26): verbs %v %s %d %q over strings, integers and bools
// are rendered exactly, delegating to the interpreted strconv code. Everywhere
// else formatting stays opaque.

import (
	"strings"

	"golang.org/x/tools/go/ssa"
)

func callerInPQL(caller *frame) bool {
	if caller == nil || caller.fn == nil || caller.fn.Pkg == nil {
		return false
	}
	// precise formatting where the formatted text is data: the PQL package
	// (forwarded calls) and the time-view names
	return strings.HasSuffix(caller.fn.Pkg.Pkg.Path(), "/pql") || caller.fn.Name() == "viewByTimeUnit"
}

func (ex *Exec) ifaceArgs(v Value) []Iface {
	s := v.(Slice)
	n := int64(ex.concretize(s.len))
	out := make([]Iface, n)
	for i := int64(0); i < n; i++ {
		x := ex.loadRef(ptrAdd(ex.st, s.p, 16*i), 16)
		if x == nil {
			out[i] = Iface{}
		} else {
			out[i] = x.(Iface)
		}
	}
	return out
}

// formatPrecise renders format with args; ok=false when something is outside
// the supported subset.
func (ex *Exec) formatPrecise(format string, args []Iface) (Str, bool) {
	res := Str{nilPtr(), zero64}
	lit := func(s string) { res = ex.strConcat(res, ex.constString(s)) }
	ai := 0
	for i := 0; i < len(format); i++ {
		c := format[i]
		if c != '%' {
			lit(string(c))
			continue
		}
		i++
		if i >= len(format) {
			return res, false
		}
		verb := format[i]
		if verb == '%' {
			lit("%")
			continue
		}
		if ai >= len(args) {
			return res, false
		}
		a := args[ai]
		ai++
		switch v := a.v.(type) {
		case Str:
			switch verb {
			case 's', 'v':
				res = ex.strConcat(res, v)
			case 'q':
				q := ex.callFunction(ex.prog.stdFunc("strconv", "Quote"), []Value{v}, nil).(Str)
				res = ex.strConcat(res, q)
			default:
				return res, false
			}
		case *Term:
			if verb != 'v' && verb != 'd' {
				return res, false
			}
			if v.w == 0 {
				if ex.branch(v) {
					lit("true")
				} else {
					lit("false")
				}
				continue
			}
			_, signed, isInt := isIntType(a.t)
			if !isInt {
				return res, false
			}
			var s Str
			if signed {
				s = ex.callFunction(ex.prog.stdFunc("strconv", "FormatInt"), []Value{ex.st.Resize(v, 64, true), c64(10)}, nil).(Str)
			} else {
				s = ex.callFunction(ex.prog.stdFunc("strconv", "FormatUint"), []Value{ex.st.Resize(v, 64, false), c64(10)}, nil).(Str)
			}
			res = ex.strConcat(res, s)
		default:
			if a.t == nil && verb == 'v' {
				lit("<nil>")
				continue
			}
			// error / Stringer operands: through their real method
			done := false
			if a.t != nil && (verb == 's' || verb == 'v') {
				for _, name := range []string{"Error", "String"} {
					m := ex.prog.prog.LookupMethod(a.t, nil, name)
					if m == nil || m.Signature.Params().Len() != 0 || m.Signature.Results().Len() != 1 {
						continue
					}
					if s, ok := ex.callFunction(m, []Value{a.v}, nil).(Str); ok {
						res = ex.strConcat(res, s)
						done = true
						break
					}
				}
			}
			if done {
				continue
			}
			return res, false
		}
	}
	return res, true
}

func init() {
	opaqueSprintf := intrinsics["fmt.Sprintf"]
	opaqueFprintf := intrinsics["fmt.Fprintf"]
	reg(func(ex *Exec, fn *ssa.Function, args []Value, caller *frame) Value {
		if callerInPQL(caller) {
			if f, ok := ex.concreteString(args[0].(Str)); ok {
				if s, ok := ex.formatPrecise(f, ex.ifaceArgs(args[1])); ok {
					return s
				}
			}
		}
		return opaqueSprintf(ex, fn, args, caller)
	}, "fmt.Sprintf")
	reg(func(ex *Exec, fn *ssa.Function, args []Value, caller *frame) Value {
		if callerInPQL(caller) {
			if f, ok := ex.concreteString(args[1].(Str)); ok {
				if s, ok := ex.formatPrecise(f, ex.ifaceArgs(args[2])); ok {
					// write to the io.Writer through its real Write method
					w := args[0].(Iface)
					n := int64(ex.concretize(s.len))
					buf := ex.newObject(n, "fprintf")
					if n > 0 {
						ex.memmove(Ptr{buf, zero64}, s.p, n)
					}
					m := ex.prog.prog.LookupMethod(w.t, nil, "Write")
					if m != nil {
						ex.callFunction(m, []Value{w.v, Slice{Ptr{buf, zero64}, c64(n), c64(n)}}, nil)
						return Tuple{c64(n), Iface{}}
					}
				}
			}
		}
		return opaqueFprintf(ex, fn, args, caller)
	}, "fmt.Fprintf")
}

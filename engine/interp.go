package main

import (
	"fmt"
	"os"
	"go/constant"
	"go/token"
	"go/types"
	"math"
	"strings"

	"golang.org/x/tools/go/ssa"
)

type deferred struct {
	fn   Value
	args []Value
	site *ssa.Defer
}

type frame struct {
	fn        *ssa.Function
	info      *fnInfo
	regs      []Value
	env       []Value
	block     *ssa.BasicBlock
	prev      *ssa.BasicBlock
	defers    []*deferred
	panicking bool
	panicVal  Value
	result    Value
	caller    *frame
	returned  bool
}

type fnInfo struct {
	idx       map[ssa.Value]int
	n         int
	intrinsic intrinsicFn
	checked   bool
}

func (ex *Exec) get(fr *frame, v ssa.Value) Value {
	switch x := v.(type) {
	case *ssa.Const:
		return ex.constValue(x)
	case *ssa.Global:
		return Ptr{ex.prog.globalObj(ex, x), zero64}
	case *ssa.Function:
		return &Closure{fn: x}
	case *ssa.Builtin:
		return x
	}
	i, ok := fr.info.idx[v]
	if !ok {
		panic(fmt.Sprintf("get: no register for %s (%T) in %s", v.Name(), v, fr.fn))
	}
	return fr.regs[i]
}

func (ex *Exec) set(fr *frame, v ssa.Value, x Value) {
	fr.regs[fr.info.idx[v]] = x
}

func (ex *Exec) constValue(c *ssa.Const) Value {
	t := c.Type()
	if c.Value == nil {
		return zeroValue(t)
	}
	if w, signed, ok := isIntType(t); ok {
		_ = signed
		if i, exact := constant.Int64Val(constant.ToInt(c.Value)); exact {
			return mkConst(w, uint64(i))
		}
		u, _ := constant.Uint64Val(constant.ToInt(c.Value))
		return mkConst(w, u)
	}
	if isBoolType(t) {
		return mkBool(constant.BoolVal(c.Value))
	}
	if isStringType(t) {
		return ex.constString(constant.StringVal(c.Value))
	}
	if w, ok := isFloatType(t); ok {
		f, _ := constant.Float64Val(c.Value)
		return Float{f: f, w: w}
	}
	panic(pathEnd{stOutOfModel, fmt.Sprintf("constant of type %v", t)})
}

func (ex *Exec) constString(s string) Str {
	if len(s) == 0 {
		return Str{nilPtr(), zero64}
	}
	o, ok := ex.strCache[s]
	if !ok {
		o = ex.newBytesObject([]byte(s), "string")
		o.ro = true
		if !ex.initPhase {
			ex.strCache[s] = o
		}
	}
	return Str{Ptr{o, zero64}, c64(int64(len(s)))}
}

// ---------- calls ----------

func (ex *Exec) callValue(fn Value, args []Value, caller *frame) Value {
	switch f := fn.(type) {
	case *Closure:
		if f == nil {
			ex.throwRuntime("call of nil function")
		}
		if f.native != nil {
			return f.native(ex, args)
		}
		return ex.callFunctionFrom(f.fn, args, f.env, caller)
	case *ssa.Builtin:
		return ex.callBuiltin(f, args, caller, nil)
	case nil:
		ex.throwRuntime("call of nil function")
	}
	panic(fmt.Sprintf("callValue: %T", fn))
}

func (ex *Exec) callFunction(fn *ssa.Function, args []Value, env []Value) Value {
	return ex.callFunctionFrom(fn, args, env, nil)
}

func (ex *Exec) callFunctionFrom(fn *ssa.Function, args []Value, env []Value, caller *frame) Value {
	info := ex.prog.info(fn)
	if info.intrinsic != nil {
		return info.intrinsic(ex, fn, args, caller)
	}
	return ex.execBody(fn, info, args, env, caller)
}

func (ex *Exec) execBody(fn *ssa.Function, info *fnInfo, args []Value, env []Value, caller *frame) Value {
	if fn.Blocks == nil {
		if fn.Pkg != nil {
			fn.Pkg.Build()
		}
		if fn.Blocks == nil {
			if ex.opaqueOK {
				return ex.opaqueResult(fn)
			}
			panic(pathEnd{stOutOfModel, "no body/intrinsic for " + fn.String()})
		}
		info = ex.prog.rebuildInfo(fn)
	}
	ex.funcs[fn] = true
	ex.depth++
	if ex.depth > 400 {
		panic(pathEnd{stBudget, "call depth exceeded in " + fn.String()})
	}
	fr := &frame{fn: fn, info: info, regs: make([]Value, info.n), env: env, caller: caller}
	for i, p := range fn.Params {
		fr.regs[info.idx[p]] = args[i]
	}
	if len(env) < len(fn.FreeVars) {
		panic(fmt.Sprintf("closure %s called with %d of %d free variables (at %s)", fn, len(env), len(fn.FreeVars), ex.where()))
	}
	for i, fv := range fn.FreeVars {
		fr.regs[info.idx[fv]] = env[i]
	}
	fr.block = fn.Blocks[0]
	savedCur := ex.cur
	ex.cur = fr
	for fr.block != nil {
		ex.runFrame(fr)
	}
	ex.cur = savedCur
	ex.depth--
	if fr.result == nil && !fr.returned {
		// recovered from a panic without a Recover block: zero results
		res := fn.Signature.Results()
		switch res.Len() {
		case 0:
			return nil
		case 1:
			return zeroValue(res.At(0).Type())
		default:
			return zeroValue(res)
		}
	}
	return fr.result
}

func (ex *Exec) opaqueResult(fn *ssa.Function) Value {
	res := fn.Signature.Results()
	switch res.Len() {
	case 0:
		return nil
	case 1:
		return ex.opaqueOf(res.At(0).Type(), fn.String())
	}
	t := make(Tuple, res.Len())
	for i := range t {
		t[i] = ex.opaqueOf(res.At(i).Type(), fn.String())
	}
	return t
}

// opaqueOf gives a harmless placeholder of type t (used only during init).
func (ex *Exec) opaqueOf(t types.Type, tag string) Value {
	switch t.Underlying().(type) {
	case *types.Pointer:
		if pt, ok := t.Underlying().(*types.Pointer); ok {
			o := ex.newObject(sizeof(pt.Elem()), "opaque:"+tag)
			return Ptr{o, zero64}
		}
	}
	return zeroValue(t)
}

func (ex *Exec) runFrame(fr *frame) {
	defer func() {
		if fr.block == nil {
			return // normal return
		}
		r := recover()
		tp, ok := r.(targetPanic)
		if !ok {
			panic(r)
		}
		fr.panicking = true
		fr.panicVal = tp.v
		ex.runDefers(fr)
		fr.block = fr.fn.Recover
		if fr.block == nil {
			fr.returned = false
			fr.result = nil
		}
	}()
	for {
		b := fr.block
		// phis
		if len(b.Instrs) > 0 {
			if _, ok := b.Instrs[0].(*ssa.Phi); ok {
				var idx int
				for i, p := range b.Preds {
					if p == fr.prev {
						idx = i
						break
					}
				}
				var vals []Value
				n := 0
				for _, in := range b.Instrs {
					phi, ok := in.(*ssa.Phi)
					if !ok {
						break
					}
					vals = append(vals, ex.get(fr, phi.Edges[idx]))
					n++
				}
				for i := 0; i < n; i++ {
					ex.set(fr, b.Instrs[i].(*ssa.Phi), vals[i])
				}
			}
		}
		jumped := false
		for _, in := range b.Instrs {
			if _, ok := in.(*ssa.Phi); ok {
				continue
			}
			ex.steps++
			if ex.steps > ex.maxSteps {
				panic(pathEnd{stBudget, fmt.Sprintf("instruction budget %d exhausted in %s", ex.maxSteps, fr.fn)})
			}
			if ex.steps&1023 == 0 {
				ex.checkDeadline()
			}
			if ex.trace {
				fmt.Printf("  [%s] %s\n", fr.fn.Name(), in)
			}
			switch ex.visit(fr, in) {
			case kJump:
				jumped = true
			case kReturn:
				fr.block = nil
				return
			}
			if jumped {
				break
			}
		}
		if !jumped {
			panic("block fell through: " + fr.fn.String())
		}
	}
}

func (ex *Exec) runDefers(fr *frame) {
	for len(fr.defers) > 0 {
		d := fr.defers[len(fr.defers)-1]
		fr.defers = fr.defers[:len(fr.defers)-1]
		ex.runDefer(fr, d)
	}
	if fr.panicking {
		panic(targetPanic{fr.panicVal})
	}
}

func (ex *Exec) runDefer(fr *frame, d *deferred) {
	ok := false
	defer func() {
		if !ok {
			r := recover()
			tp, isT := r.(targetPanic)
			if !isT {
				panic(r)
			}
			// deferred call panicked: replaces current panic
			fr.panicking = true
			fr.panicVal = tp.v
		}
	}()
	ex.callValueDefer(d, fr)
	ok = true
}

func (ex *Exec) callValueDefer(d *deferred, fr *frame) {
	switch f := d.fn.(type) {
	case *ssa.Builtin:
		ex.callBuiltin(f, d.args, fr, nil)
	default:
		ex.callValue(d.fn, d.args, fr)
	}
}

type cont int

const (
	kNext cont = iota
	kJump
	kReturn
)

func (ex *Exec) prepareCall(fr *frame, call *ssa.CallCommon) (Value, []Value) {
	v := ex.get(fr, call.Value)
	var args []Value
	var fn Value
	if call.Method == nil {
		fn = v
	} else {
		recv := v.(Iface)
		if recv.t == nil {
			ex.throwRuntime("invalid memory address or nil pointer dereference (method call on nil interface)")
		}
		m := ex.prog.lookupMethod(recv.t, call.Method)
		if m == nil {
			panic(pathEnd{stOutOfModel, fmt.Sprintf("no method %s on %v", call.Method.Name(), recv.t)})
		}
		fn = &Closure{fn: m}
		args = append(args, recv.v)
	}
	for _, a := range call.Args {
		args = append(args, ex.get(fr, a))
	}
	return fn, args
}

func (ex *Exec) visit(fr *frame, instr ssa.Instruction) cont {
	st := ex.st
	switch in := instr.(type) {
	case *ssa.DebugRef:
	case *ssa.UnOp:
		ex.set(fr, in, ex.unop(in, ex.get(fr, in.X)))
	case *ssa.BinOp:
		ex.set(fr, in, ex.binop(in.Op, in.X.Type(), ex.get(fr, in.X), ex.get(fr, in.Y), in.Y.Type()))
	case *ssa.Call:
		fn, args := ex.prepareCall(fr, &in.Call)
		var r Value
		if b, ok := fn.(*ssa.Builtin); ok {
			r = ex.callBuiltin(b, args, fr, in)
		} else {
			r = ex.callValue(fn, args, fr)
		}
		ex.set(fr, in, r)
	case *ssa.ChangeInterface:
		ex.set(fr, in, ex.get(fr, in.X))
	case *ssa.ChangeType:
		ex.set(fr, in, ex.get(fr, in.X))
	case *ssa.Convert:
		ex.set(fr, in, ex.conv(in.Type(), in.X.Type(), ex.get(fr, in.X)))
	case *ssa.MultiConvert:
		ex.set(fr, in, ex.conv(in.Type(), in.X.Type(), ex.get(fr, in.X)))
	case *ssa.SliceToArrayPointer:
		s := ex.get(fr, in.X).(Slice)
		at := in.Type().Underlying().(*types.Pointer).Elem().Underlying().(*types.Array)
		if !ex.branch(st.Ule(c64(at.Len()), s.len)) {
			ex.throwRuntime("cannot convert slice to array pointer: length too short")
		}
		ex.set(fr, in, s.p)
	case *ssa.MakeInterface:
		ex.set(fr, in, Iface{t: in.X.Type(), v: ex.get(fr, in.X)})
	case *ssa.Extract:
		ex.set(fr, in, ex.get(fr, in.Tuple).(Tuple)[in.Index])
	case *ssa.Slice:
		ex.set(fr, in, ex.sliceOp(fr, in))
	case *ssa.Return:
		switch len(in.Results) {
		case 0:
		case 1:
			fr.result = ex.get(fr, in.Results[0])
		default:
			t := make(Tuple, len(in.Results))
			for i, r := range in.Results {
				t[i] = ex.get(fr, r)
			}
			fr.result = t
		}
		fr.returned = true
		return kReturn
	case *ssa.RunDefers:
		ex.runDefers(fr)
	case *ssa.Panic:
		panic(targetPanic{ex.get(fr, in.X)})
	case *ssa.Send:
		ex.chanSend(ex.get(fr, in.Chan).(*ChanObj), ex.get(fr, in.X))
	case *ssa.Store:
		t := in.Addr.Type().Underlying().(*types.Pointer).Elem()
		ex.store(t, ex.get(fr, in.Addr).(Ptr), ex.get(fr, in.Val))
	case *ssa.If:
		c := ex.get(fr, in.Cond).(*Term)
		succ := 1
		if ex.branch(c) {
			succ = 0
		}
		fr.prev, fr.block = fr.block, fr.block.Succs[succ]
		return kJump
	case *ssa.Jump:
		fr.prev, fr.block = fr.block, fr.block.Succs[0]
		return kJump
	case *ssa.Defer:
		fn, args := ex.prepareCall(fr, &in.Call)
		fr.defers = append(fr.defers, &deferred{fn: fn, args: args, site: in})
	case *ssa.Go:
		fn, args := ex.prepareCall(fr, &in.Call)
		ex.spawn(fn, args)
	case *ssa.MakeChan:
		n := ex.concretize(ex.toInt64(ex.get(fr, in.Size), in.Size.Type()))
		ex.nextMap++
		ex.set(fr, in, &ChanObj{id: ex.nextMap, cap: int(n), shared: ex.initPhase})
	case *ssa.Alloc:
		t := in.Type().Underlying().(*types.Pointer).Elem()
		o := ex.newObject(sizeof(t), "alloc:"+shortType(t))
		o.elem = t
		ex.set(fr, in, Ptr{o, zero64})
	case *ssa.MakeSlice:
		et := in.Type().Underlying().(*types.Slice).Elem()
		ln := ex.toInt64(ex.get(fr, in.Len), in.Len.Type())
		cp := ex.toInt64(ex.get(fr, in.Cap), in.Cap.Type())
		if !ex.branch(st.Sle(zero64, ln)) {
			ex.throwRuntime("makeslice: len out of range")
		}
		if !ex.branch(st.Sle(ln, cp)) {
			ex.throwRuntime("makeslice: cap out of range")
		}
		es := sizeof(et)
		if _, isC := cp.ConstVal(); !isC && !ex.branch(st.Ule(cp, c64(4096))) {
			// symbolic capacity beyond the enumeration cap: a virtual huge
			// object (sparse), bounds are enforced through the slice header
			if es > 0 && !ex.branch(st.Ule(cp, c64((1<<46)/es))) {
				ex.throwRuntime("makeslice: cap out of range")
			}
			o := ex.newObject(1<<47, "make-huge:"+shortType(et))
			o.elem = et
			ex.set(fr, in, Slice{Ptr{o, zero64}, ln, cp})
			break
		}
		cn := int64(ex.concretize(cp))
		if cn*es > 1<<28 || cn < 0 {
			ex.throwRuntime("makeslice: len out of range (too large)")
		}
		o := ex.newObject(cn*es, "make:"+shortType(et))
		o.elem = et
		ex.set(fr, in, Slice{Ptr{o, zero64}, ln, c64(cn)})
	case *ssa.MakeMap:
		ex.nextMap++
		ex.set(fr, in, &MapObj{id: ex.nextMap, shared: ex.initPhase, kt: in.Type().Underlying().(*types.Map).Key()})
	case *ssa.Range:
		ex.set(fr, in, ex.rangeIter(ex.get(fr, in.X), in.X.Type()))
	case *ssa.Next:
		ex.set(fr, in, ex.get(fr, in.Iter).(*Iter).next(ex))
	case *ssa.FieldAddr:
		p := ex.get(fr, in.X).(Ptr)
		if p.obj == nil {
			ex.throwRuntime("invalid memory address or nil pointer dereference")
		}
		stt := in.X.Type().Underlying().(*types.Pointer).Elem().Underlying().(*types.Struct)
		ex.set(fr, in, ptrAdd(st, p, ex.prog.fieldOffsets(stt)[in.Field]))
	case *ssa.Field:
		ex.set(fr, in, ex.get(fr, in.X).(Agg)[in.Field])
	case *ssa.IndexAddr:
		ex.set(fr, in, ex.indexAddr(fr, in))
	case *ssa.Index:
		ex.set(fr, in, ex.indexOp(fr, in))
	case *ssa.Lookup:
		ex.set(fr, in, ex.lookup(fr, in))
	case *ssa.MapUpdate:
		m := ex.get(fr, in.Map).(*MapObj)
		if m == nil {
			ex.throwRuntime("assignment to entry in nil map")
		}
		ex.mapSet(m, ex.get(fr, in.Key), ex.get(fr, in.Value))
	case *ssa.TypeAssert:
		ex.set(fr, in, ex.typeAssert(in, ex.get(fr, in.X).(Iface)))
	case *ssa.MakeClosure:
		var env []Value
		for _, b := range in.Bindings {
			env = append(env, ex.get(fr, b))
		}
		ex.set(fr, in, &Closure{fn: in.Fn.(*ssa.Function), env: env})
	case *ssa.Select:
		ex.set(fr, in, ex.selectOp(fr, in))
	default:
		panic(pathEnd{stOutOfModel, fmt.Sprintf("unhandled instruction %T", instr)})
	}
	return kNext
}

func shortType(t types.Type) string {
	s := types.TypeString(t, func(p *types.Package) string { return p.Name() })
	if len(s) > 40 {
		s = s[:40]
	}
	return s
}

// toInt64 widens an integer value to 64 bits per its type's signedness.
func (ex *Exec) toInt64(v Value, t types.Type) *Term {
	x, ok := v.(*Term)
	if !ok {
		panic(pathEnd{stOutOfModel, fmt.Sprintf("integer expected, got %T", v)})
	}
	_, signed, _ := isIntType(t)
	return ex.st.Resize(x, 64, signed)
}

func (ex *Exec) throwRuntime(msg string) {
	if debugPanic {
		fmt.Fprintf(os.Stderr, "RUNTIME-PANIC %s at %s\n", msg, ex.where())
	}
	panic(targetPanic{Iface{t: ex.prog.runtimeErrorType, v: ex.constString("runtime error: " + msg)}})
}

func (ex *Exec) indexAddr(fr *frame, in *ssa.IndexAddr) Value {
	st := ex.st
	x := ex.get(fr, in.X)
	idx := ex.toInt64(ex.get(fr, in.Index), in.Index.Type())
	var base Ptr
	var ln *Term
	var et types.Type
	switch xt := in.X.Type().Underlying().(type) {
	case *types.Slice:
		s := x.(Slice)
		base, ln, et = s.p, s.len, xt.Elem()
	case *types.Pointer:
		at := xt.Elem().Underlying().(*types.Array)
		base, ln, et = x.(Ptr), c64(at.Len()), at.Elem()
		if base.obj == nil {
			ex.throwRuntime("invalid memory address or nil pointer dereference")
		}
	default:
		panic(fmt.Sprintf("indexAddr on %v", in.X.Type()))
	}
	if !ex.branch(st.Ult(idx, ln)) {
		ex.throwRuntime("index out of range")
	}
	es := sizeof(et)
	return Ptr{base.obj, st.Bin(OpAdd, base.off, st.Bin(OpMul, idx, c64(es)))}
}

func (ex *Exec) indexOp(fr *frame, in *ssa.Index) Value {
	st := ex.st
	x := ex.get(fr, in.X)
	idx := ex.toInt64(ex.get(fr, in.Index), in.Index.Type())
	switch v := x.(type) {
	case Agg:
		if !ex.branch(st.Ult(idx, c64(int64(len(v))))) {
			ex.throwRuntime("index out of range")
		}
		if k, ok := idx.ConstVal(); ok {
			return v[k]
		}
		// symbolic index: ite over numeric elements, else concretise
		allNum := true
		for _, e := range v {
			if t, ok := e.(*Term); !ok || t.w == 0 {
				allNum = false
				break
			}
		}
		if allNum && len(v) <= maxIteCands {
			res := v[len(v)-1].(*Term)
			for i := len(v) - 2; i >= 0; i-- {
				res = st.Ite(st.Eq(idx, c64(int64(i))), v[i].(*Term), res)
			}
			return res
		}
		return v[ex.concretize(idx)]
	case Str:
		if !ex.branch(st.Ult(idx, v.len)) {
			ex.throwRuntime("index out of range")
		}
		return ex.loadNum(Ptr{v.p.obj, st.Bin(OpAdd, v.p.off, idx)}, 1)
	}
	panic(fmt.Sprintf("indexOp on %T", x))
}

func (ex *Exec) sliceOp(fr *frame, in *ssa.Slice) Value {
	st := ex.st
	x := ex.get(fr, in.X)
	var base Ptr
	var ln, cp *Term
	var es int64
	isStr := false
	switch xt := in.X.Type().Underlying().(type) {
	case *types.Slice:
		s := x.(Slice)
		base, ln, cp, es = s.p, s.len, s.cap, sizeof(xt.Elem())
	case *types.Basic: // string
		s := x.(Str)
		base, ln, cp, es = s.p, s.len, s.len, 1
		isStr = true
	case *types.Pointer:
		at := xt.Elem().Underlying().(*types.Array)
		base = x.(Ptr)
		if base.obj == nil {
			ex.throwRuntime("invalid memory address or nil pointer dereference")
		}
		ln, cp, es = c64(at.Len()), c64(at.Len()), sizeof(at.Elem())
	default:
		panic(fmt.Sprintf("slice of %v", in.X.Type()))
	}
	lo := zero64
	if in.Low != nil {
		lo = ex.toInt64(ex.get(fr, in.Low), in.Low.Type())
	}
	hi := ln
	if in.High != nil {
		hi = ex.toInt64(ex.get(fr, in.High), in.High.Type())
	}
	mx := cp
	if in.Max != nil {
		mx = ex.toInt64(ex.get(fr, in.Max), in.Max.Type())
	}
	ok := st.And(st.Ule(lo, hi), st.And(st.Ule(hi, mx), st.Ule(mx, cp)))
	if !ex.branch(ok) {
		ex.throwRuntime("slice bounds out of range")
	}
	np := Ptr{base.obj, st.Bin(OpAdd, base.off, st.Bin(OpMul, lo, c64(es)))}
	nl := st.Bin(OpSub, hi, lo)
	if isStr {
		return Str{np, nl}
	}
	return Slice{np, nl, st.Bin(OpSub, mx, lo)}
}

func (ex *Exec) typeAssert(in *ssa.TypeAssert, x Iface) Value {
	var ok bool
	var v Value
	if it, isI := in.AssertedType.Underlying().(*types.Interface); isI {
		ok = x.t != nil && ex.prog.implements(x.t, it)
		v = x
	} else {
		ok = x.t != nil && types.Identical(x.t, in.AssertedType)
		v = x.v
	}
	if in.CommaOk {
		if !ok {
			v = zeroValue(in.AssertedType)
		}
		return Tuple{v, mkBool(ok)}
	}
	if !ok {
		ex.throwRuntime(fmt.Sprintf("interface conversion: interface is %v, not %v", x.t, in.AssertedType))
	}
	return v
}

// ---------- unary / binary / conversions ----------

func (ex *Exec) unop(in *ssa.UnOp, x Value) Value {
	st := ex.st
	switch in.Op {
	case token.MUL:
		p := x.(Ptr)
		return ex.load(in.X.Type().Underlying().(*types.Pointer).Elem(), p)
	case token.NOT:
		return st.Not(x.(*Term))
	case token.SUB:
		if f, ok := x.(Float); ok {
			return Float{f: -f.f, w: f.w}
		}
		return st.BvNeg(x.(*Term))
	case token.XOR:
		return st.BvNot(x.(*Term))
	case token.ARROW:
		v, ok := ex.chanRecv(x.(*ChanObj), in.X.Type().Underlying().(*types.Chan).Elem())
		if in.CommaOk {
			return Tuple{v, mkBool(ok)}
		}
		return v
	}
	panic(fmt.Sprintf("unop %v", in.Op))
}

func (ex *Exec) binop(op token.Token, xt types.Type, x, y Value, yt types.Type) Value {
	st := ex.st
	switch a := x.(type) {
	case *Term:
		if a.w == 0 {
			b := y.(*Term)
			switch op {
			case token.EQL:
				return st.Eq(a, b)
			case token.NEQ:
				return st.Not(st.Eq(a, b))
			case token.AND, token.LAND:
				return st.And(a, b)
			case token.OR, token.LOR:
				return st.Or(a, b)
			}
			panic(fmt.Sprintf("bool binop %v", op))
		}
		_, signed, _ := isIntType(xt)
		if op == token.SHL || op == token.SHR {
			return ex.shift(op, a, signed, y, yt)
		}
		b, ok := y.(*Term)
		if !ok {
			if pi, isP := y.(PtrInt); isP {
				return ex.ptrIntOp(op, PtrInt{}, a, pi, true)
			}
			panic(fmt.Sprintf("int binop %v with %T", op, y))
		}
		switch op {
		case token.ADD:
			return st.Bin(OpAdd, a, b)
		case token.SUB:
			return st.Bin(OpSub, a, b)
		case token.MUL:
			return st.Bin(OpMul, a, b)
		case token.QUO, token.REM:
			if !ex.branch(st.Not(st.Eq(b, mkConst(b.w, 0)))) {
				ex.throwRuntime("integer divide by zero")
			}
			switch {
			case op == token.QUO && signed:
				return st.Bin(OpSDiv, a, b)
			case op == token.QUO:
				return st.Bin(OpUDiv, a, b)
			case signed:
				return st.Bin(OpSRem, a, b)
			default:
				return st.Bin(OpURem, a, b)
			}
		case token.AND:
			return st.Bin(OpBvAnd, a, b)
		case token.OR:
			return st.Bin(OpBvOr, a, b)
		case token.XOR:
			return st.Bin(OpBvXor, a, b)
		case token.AND_NOT:
			return st.Bin(OpBvAnd, a, st.BvNot(b))
		case token.EQL:
			return st.Eq(a, b)
		case token.NEQ:
			return st.Not(st.Eq(a, b))
		case token.LSS:
			if signed {
				return st.Slt(a, b)
			}
			return st.Ult(a, b)
		case token.LEQ:
			if signed {
				return st.Sle(a, b)
			}
			return st.Ule(a, b)
		case token.GTR:
			if signed {
				return st.Slt(b, a)
			}
			return st.Ult(b, a)
		case token.GEQ:
			if signed {
				return st.Sle(b, a)
			}
			return st.Ule(b, a)
		}
	case PtrInt:
		switch b := y.(type) {
		case *Term:
			return ex.ptrIntOp(op, a, b, PtrInt{}, false)
		case PtrInt:
			eq := ex.ptrEq(a.p, b.p)
			switch op {
			case token.EQL:
				return eq
			case token.NEQ:
				return st.Not(eq)
			case token.SUB:
				if a.p.obj == b.p.obj {
					return st.Bin(OpSub, a.p.off, b.p.off)
				}
			}
		}
		panic(pathEnd{stOutOfModel, fmt.Sprintf("uintptr arithmetic %v", op)})
	case Float:
		b := y.(Float)
		switch op {
		case token.ADD:
			return Float{f: a.f + b.f, w: a.w}
		case token.SUB:
			return Float{f: a.f - b.f, w: a.w}
		case token.MUL:
			return Float{f: a.f * b.f, w: a.w}
		case token.QUO:
			return Float{f: a.f / b.f, w: a.w}
		case token.EQL:
			return mkBool(a.f == b.f)
		case token.NEQ:
			return mkBool(a.f != b.f)
		case token.LSS:
			return mkBool(a.f < b.f)
		case token.LEQ:
			return mkBool(a.f <= b.f)
		case token.GTR:
			return mkBool(a.f > b.f)
		case token.GEQ:
			return mkBool(a.f >= b.f)
		}
	case Str:
		b := y.(Str)
		switch op {
		case token.ADD:
			return ex.strConcat(a, b)
		case token.EQL:
			return ex.strEq(a, b)
		case token.NEQ:
			return st.Not(ex.strEq(a, b))
		case token.LSS:
			return ex.strLess(a, b, false)
		case token.LEQ:
			return ex.strLess(a, b, true)
		case token.GTR:
			return ex.strLess(b, a, false)
		case token.GEQ:
			return ex.strLess(b, a, true)
		}
	}
	switch op {
	case token.EQL:
		return ex.equal(xt, x, y)
	case token.NEQ:
		return st.Not(ex.equal(xt, x, y))
	}
	panic(fmt.Sprintf("binop %v on %T,%T", op, x, y))
}

func (ex *Exec) ptrIntOp(op token.Token, a PtrInt, k *Term, b PtrInt, swapped bool) Value {
	st := ex.st
	if swapped {
		// k op b
		switch op {
		case token.ADD:
			return PtrInt{Ptr{b.p.obj, st.Bin(OpAdd, b.p.off, k)}}
		case token.EQL:
			return st.And(mkBool(b.p.obj == nil), st.Eq(k, zero64))
		case token.NEQ:
			return st.Not(st.And(mkBool(b.p.obj == nil), st.Eq(k, zero64)))
		}
		panic(pathEnd{stOutOfModel, "uintptr arithmetic " + op.String() + " at " + ex.where()})
	}
	switch op {
	case token.ADD:
		return PtrInt{Ptr{a.p.obj, st.Bin(OpAdd, a.p.off, k)}}
	case token.SUB:
		return PtrInt{Ptr{a.p.obj, st.Bin(OpSub, a.p.off, k)}}
	case token.EQL:
		return st.And(mkBool(a.p.obj == nil), st.Eq(k, zero64))
	case token.NEQ:
		return st.Not(st.And(mkBool(a.p.obj == nil), st.Eq(k, zero64)))
	}
	panic(pathEnd{stOutOfModel, "uintptr arithmetic " + op.String() + " at " + ex.where()})
}

func (ex *Exec) shift(op token.Token, a *Term, signed bool, y Value, yt types.Type) Value {
	st := ex.st
	b := y.(*Term)
	_, ysigned, _ := isIntType(yt)
	if ysigned {
		if !ex.branch(st.Sle(mkConst(b.w, 0), b)) {
			ex.throwRuntime("negative shift amount")
		}
	}
	// bring count to a's width, saturating
	var cnt *Term
	if b.w > a.w {
		big := st.Ule(mkConst(b.w, uint64(a.w)), b)
		cnt = st.Ite(big, mkConst(a.w, uint64(a.w)), st.Extract(b, a.w-1, 0))
	} else {
		cnt = st.ZExt(b, a.w)
	}
	if op == token.SHL {
		if a.w < 8 {
			panic("narrow shift")
		}
		return st.Bin(OpShl, a, cnt)
	}
	if signed {
		return st.Bin(OpAShr, a, cnt)
	}
	return st.Bin(OpLShr, a, cnt)
}

func (ex *Exec) ptrEq(a, b Ptr) *Term {
	if a.obj != b.obj {
		return tFalse
	}
	if a.obj == nil {
		return tTrue
	}
	return ex.st.Eq(a.off, b.off)
}

// equal implements == for comparable non-numeric values.
func (ex *Exec) equal(t types.Type, x, y Value) *Term {
	st := ex.st
	switch a := x.(type) {
	case *Term:
		return st.Eq(a, y.(*Term))
	case Float:
		return mkBool(a.f == y.(Float).f)
	case Ptr:
		switch b := y.(type) {
		case Ptr:
			return ex.ptrEq(a, b)
		case PtrInt:
			return ex.ptrEq(a, b.p)
		}
	case PtrInt:
		switch b := y.(type) {
		case PtrInt:
			return ex.ptrEq(a.p, b.p)
		case Ptr:
			return ex.ptrEq(a.p, b)
		case *Term:
			return st.And(mkBool(a.p.obj == nil), st.Eq(b, zero64))
		}
	case Str:
		return ex.strEq(a, y.(Str))
	case *MapObj:
		return mkBool(a == y.(*MapObj))
	case *ChanObj:
		return mkBool(a == y.(*ChanObj))
	case *Closure:
		b := y.(*Closure)
		if a == nil || b == nil {
			return mkBool(a == nil && b == nil)
		}
		panic(pathEnd{stOutOfModel, "comparing non-nil funcs"})
	case Slice:
		b := y.(Slice)
		// only comparison with nil is legal
		if b.p.obj == nil {
			return mkBool(a.p.obj == nil)
		}
		return mkBool(a.p.obj == nil && b.p.obj == nil)
	case Iface:
		b := y.(Iface)
		if a.t == nil || b.t == nil {
			return mkBool(a.t == nil && b.t == nil)
		}
		if !types.Identical(a.t, b.t) {
			return tFalse
		}
		return ex.equal(a.t, a.v, b.v)
	case Agg:
		b := y.(Agg)
		res := tTrue
		for i := range a {
			var et types.Type
			switch u := t.Underlying().(type) {
			case *types.Struct:
				et = u.Field(i).Type()
			case *types.Array:
				et = u.Elem()
			}
			res = st.And(res, ex.equal(et, a[i], b[i]))
		}
		return res
	case nil:
		return mkBool(y == nil)
	case Opaque:
		panic(pathEnd{stOutOfModel, "comparison of opaque value " + a.tag})
	}
	panic(fmt.Sprintf("equal: %T vs %T", x, y))
}

func (ex *Exec) conv(dst, src types.Type, x Value) Value {
	st := ex.st
	ud, us := dst.Underlying(), src.Underlying()
	// pointer / unsafe.Pointer / uintptr
	if isUnsafePointer(ud) {
		switch v := x.(type) {
		case Ptr:
			return v
		case PtrInt:
			return v.p
		case *Term:
			if k, ok := v.ConstVal(); ok && k == 0 {
				return nilPtr()
			}
			panic(pathEnd{stOutOfModel, "unsafe.Pointer from integer"})
		}
	}
	if _, ok := ud.(*types.Pointer); ok {
		switch v := x.(type) {
		case Ptr:
			return v
		case PtrInt:
			return v.p
		}
	}
	if isUintptr(ud) {
		switch v := x.(type) {
		case Ptr:
			if v.obj == nil {
				return zero64
			}
			return PtrInt{v}
		case PtrInt:
			return v
		}
	}
	if dw, _, ok := isIntType(ud); ok {
		switch v := x.(type) {
		case *Term:
			_, ss, _ := isIntType(us)
			return st.Resize(v, dw, ss)
		case Float:
			_, ds, _ := isIntType(ud)
			if ds {
				return mkConst(dw, uint64(int64(v.f)))
			}
			if v.f < 0 {
				return mkConst(dw, uint64(int64(v.f)))
			}
			return mkConst(dw, uint64(v.f))
		case PtrInt:
			if dw == 64 {
				return v
			}
		}
	}
	if fw, ok := isFloatType(ud); ok {
		switch v := x.(type) {
		case Float:
			if fw == 32 {
				return Float{f: float64(float32(v.f)), w: 32}
			}
			return Float{f: v.f, w: 64}
		case *Term:
			k, isC := v.ConstVal()
			if !isC {
				k = ex.concretize(v)
			}
			_, ss, _ := isIntType(us)
			var f float64
			if ss {
				f = float64(sext64(k, v.w))
			} else {
				f = float64(k)
			}
			if fw == 32 {
				f = float64(float32(f))
			}
			return Float{f: f, w: fw}
		}
	}
	if isStringType(ud) {
		switch v := x.(type) {
		case Str:
			return v
		case *Term: // integer -> string (rune)
			k := ex.concretize(v)
			return ex.constString(string(rune(int32(k))))
		case Slice:
			et := us.(*types.Slice).Elem()
			if w, _, _ := isIntType(et); w == 8 {
				n := int64(ex.concretize(v.len))
				if n == 0 {
					return Str{nilPtr(), zero64}
				}
				o := ex.newObject(n, "string")
				ex.memmove(Ptr{o, zero64}, v.p, n)
				o.ro = true
				return Str{Ptr{o, zero64}, c64(n)}
			}
			// []rune -> string
			n := int64(ex.concretize(v.len))
			var sb strings.Builder
			for i := int64(0); i < n; i++ {
				r := ex.loadNum(ptrAdd(st, v.p, 4*i), 4).(*Term)
				sb.WriteRune(rune(int32(ex.concretize(r))))
			}
			return ex.constString(sb.String())
		}
	}
	if sl, ok := ud.(*types.Slice); ok {
		if s, isS := x.(Str); isS {
			if w, _, _ := isIntType(sl.Elem()); w == 8 {
				n := int64(ex.concretize(s.len))
				o := ex.newObject(n, "bytes")
				if n > 0 {
					ex.memmove(Ptr{o, zero64}, s.p, n)
				}
				return Slice{Ptr{o, zero64}, c64(n), c64(n)}
			}
			// string -> []rune
			runes := ex.decodeRunes(s)
			o := ex.newObject(int64(4*len(runes)), "runes")
			for i, r := range runes {
				ex.storeCellC(o, int64(4*i), 4, r)
			}
			return Slice{Ptr{o, zero64}, c64(int64(len(runes))), c64(int64(len(runes)))}
		}
		if s, isS := x.(Slice); isS {
			return s
		}
	}
	// identical underlying kinds (e.g. named conversions routed through Convert)
	switch x.(type) {
	case Agg, Iface, *MapObj, *ChanObj, *Closure, Slice:
		return x
	}
	panic(pathEnd{stOutOfModel, fmt.Sprintf("conversion %v -> %v (%T)", src, dst, x)})
}

var _ = math.MaxInt64

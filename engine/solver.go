package main

// One long-lived solver process per worker, SMT-LIB2 over a pipe.

import (
	"bufio"
	"fmt"
	"io"
	"os/exec"
	"strconv"
	"strings"
	"time"
)

type Solver struct {
	cmd     *exec.Cmd
	in      io.WriteCloser
	out     *bufio.Reader
	Queries int
	Time    time.Duration
	Errors  int
	log     io.Writer
	name    string
}

func NewSolver(name string, timeoutMs int) (*Solver, error) {
	var cmd *exec.Cmd
	switch name {
	case "z3", "z3-new":
		cmd = exec.Command(name, "-in", fmt.Sprintf("-t:%d", timeoutMs))
	case "cvc5":
		cmd = exec.Command("cvc5", "--incremental", "--lang=smt2", "--produce-models", fmt.Sprintf("--tlimit-per=%d", timeoutMs))
	default:
		return nil, fmt.Errorf("unknown solver %s", name)
	}
	in, err := cmd.StdinPipe()
	if err != nil {
		return nil, err
	}
	out, err := cmd.StdoutPipe()
	if err != nil {
		return nil, err
	}
	cmd.Stderr = nil
	if err := cmd.Start(); err != nil {
		return nil, err
	}
	s := &Solver{cmd: cmd, in: in, out: bufio.NewReaderSize(out, 1<<16), name: name}
	s.send("(set-option :produce-models true)\n")
	if name == "cvc5" {
		s.send("(set-logic ALL)\n")
	}
	return s, nil
}

func (s *Solver) Close() {
	s.in.Close()
	s.cmd.Process.Kill()
	s.cmd.Wait()
}

func (s *Solver) send(txt string) {
	if s.log != nil {
		io.WriteString(s.log, txt)
	}
	io.WriteString(s.in, txt)
}

func (s *Solver) Push() { s.send("(push 1)\n") }
func (s *Solver) Pop()  { s.send("(pop 1)\n") }

func (s *Solver) Send(txt string) { s.send(txt) }

func (s *Solver) readLine() string {
	for {
		line, err := s.out.ReadString('\n')
		if err != nil {
			return "(error \"solver died: " + err.Error() + "\")"
		}
		line = strings.TrimSpace(line)
		if line == "" || line == "success" {
			continue
		}
		return line
	}
}

// CheckSat returns "sat", "unsat" or "unknown" (errors map to unknown).
func (s *Solver) CheckSat() string {
	t0 := time.Now()
	s.send("(check-sat)\n")
	s.Queries++
	var res string
	for {
		line := s.readLine()
		if strings.HasPrefix(line, "(error") {
			s.Errors++
			res = "unknown"
			if strings.Contains(line, "solver died") {
				break
			}
			continue // the verdict line still follows
		}
		if line == "sat" || line == "unsat" || line == "unknown" || line == "timeout" {
			if res == "" {
				res = line
			}
			if res == "timeout" {
				res = "unknown"
			}
			break
		}
	}
	s.Time += time.Since(t0)
	return res
}

// GetValues queries values for the named expressions (after sat).
func (s *Solver) GetValues(names []string) (map[string]uint64, bool) {
	res := map[string]uint64{}
	const chunk = 200
	for i := 0; i < len(names); i += chunk {
		j := i + chunk
		if j > len(names) {
			j = len(names)
		}
		s.send("(get-value (" + strings.Join(names[i:j], " ") + "))\n")
		txt := s.readSexp()
		if strings.HasPrefix(txt, "(error") {
			s.Errors++
			return nil, false
		}
		if !parseValues(txt, names[i:j], res) {
			return nil, false
		}
	}
	return res, true
}

// readSexp reads one balanced s-expression (possibly multi-line).
func (s *Solver) readSexp() string {
	var sb strings.Builder
	depth := 0
	started := false
	inBar := false
	for {
		line, err := s.out.ReadString('\n')
		if err != nil {
			return "(error \"solver died\")"
		}
		for _, ch := range line {
			if ch == '|' {
				inBar = !inBar
			}
			if inBar {
				continue
			}
			if ch == '(' {
				depth++
				started = true
			} else if ch == ')' {
				depth--
			}
		}
		sb.WriteString(line)
		if started && depth <= 0 {
			return strings.TrimSpace(sb.String())
		}
	}
}

// parseValues parses "((n1 v1) (n2 v2) ...)" in order of names.
func parseValues(txt string, names []string, res map[string]uint64) bool {
	// tokenise
	pos := 0
	n := len(txt)
	skipWS := func() {
		for pos < n && (txt[pos] == ' ' || txt[pos] == '\n' || txt[pos] == '\t' || txt[pos] == '\r') {
			pos++
		}
	}
	expect := func(c byte) bool {
		skipWS()
		if pos < n && txt[pos] == c {
			pos++
			return true
		}
		return false
	}
	readAtom := func() string {
		skipWS()
		st := pos
		if pos < n && txt[pos] == '|' {
			pos++
			for pos < n && txt[pos] != '|' {
				pos++
			}
			pos++
			return txt[st:pos]
		}
		for pos < n && !strings.ContainsRune(" \n\t\r()", rune(txt[pos])) {
			pos++
		}
		return txt[st:pos]
	}
	if !expect('(') {
		return false
	}
	for _, name := range names {
		if !expect('(') {
			return false
		}
		_ = readAtom() // name (as printed)
		skipWS()
		var val uint64
		if pos < n && txt[pos] == '(' {
			// (_ bvN w)
			pos++
			a := readAtom()
			b := readAtom()
			_ = readAtom()
			if a != "_" || !strings.HasPrefix(b, "bv") {
				return false
			}
			v, err := strconv.ParseUint(b[2:], 10, 64)
			if err != nil {
				return false
			}
			val = v
			if !expect(')') {
				return false
			}
		} else {
			a := readAtom()
			switch {
			case a == "true":
				val = 1
			case a == "false":
				val = 0
			case strings.HasPrefix(a, "#x"):
				v, err := strconv.ParseUint(a[2:], 16, 64)
				if err != nil {
					return false
				}
				val = v
			case strings.HasPrefix(a, "#b"):
				v, err := strconv.ParseUint(a[2:], 2, 64)
				if err != nil {
					return false
				}
				val = v
			default:
				return false
			}
		}
		if !expect(')') {
			return false
		}
		res[name] = val
	}
	return true
}

package main

// Strings, maps, range iterators, channels, builtins.

import (
	"fmt"
	"go/types"
	"unicode/utf8"

	"golang.org/x/tools/go/ssa"
)

// ---------- strings ----------

func (ex *Exec) concreteString(s Str) (string, bool) {
	n, ok := s.len.ConstVal()
	if !ok {
		return "", false
	}
	if n == 0 {
		return "", true
	}
	off, ok := s.p.off.ConstVal()
	if !ok {
		return "", false
	}
	o := ex.r(s.p.obj)
	if o.dead || int64(off)+int64(n) > o.size {
		return "", false
	}
	if len(o.cells) == 0 && o.base != nil {
		return string(o.base[off : off+n]), true
	}
	b := make([]byte, n)
	for i := uint64(0); i < n; i++ {
		v, ok := ex.byteAt(o, int64(off+i)).ConstVal()
		if !ok {
			return "", false
		}
		b[i] = byte(v)
	}
	return string(b), true
}

func (ex *Exec) strByte(s Str, i int64) *Term {
	return ex.loadNum(ptrAdd(ex.st, s.p, i), 1).(*Term)
}

func (ex *Exec) strLenC(s Str) int64 {
	return int64(ex.concretize(s.len))
}

func (ex *Exec) strConcat(a, b Str) Str {
	na, nb := ex.strLenC(a), ex.strLenC(b)
	if na == 0 {
		return b
	}
	if nb == 0 {
		return a
	}
	o := ex.newObject(na+nb, "string")
	ex.memmove(Ptr{o, zero64}, a.p, na)
	ex.memmove(Ptr{o, c64(na)}, b.p, nb)
	o.ro = true
	return Str{Ptr{o, zero64}, c64(na + nb)}
}

func (ex *Exec) strEq(a, b Str) *Term {
	st := ex.st
	if ca, ok := ex.concreteString(a); ok {
		if cb, ok := ex.concreteString(b); ok {
			return mkBool(ca == cb)
		}
	}
	la, oka := a.len.ConstVal()
	lb, okb := b.len.ConstVal()
	if oka && okb {
		if la != lb {
			return tFalse
		}
		res := tTrue
		for i := int64(0); i < int64(la); i++ {
			res = st.And(res, st.Eq(ex.strByte(a, i), ex.strByte(b, i)))
			if res.isFalse() {
				return res
			}
		}
		return res
	}
	// symbolic lengths: decide length equality first
	if !ex.branch(st.Eq(a.len, b.len)) {
		return tFalse
	}
	n := ex.strLenC(a)
	res := tTrue
	for i := int64(0); i < n; i++ {
		res = st.And(res, st.Eq(ex.strByte(a, i), ex.strByte(b, i)))
	}
	return res
}

// strLess: a < b (or a <= b when orEq) lexicographically.
func (ex *Exec) strLess(a, b Str, orEq bool) *Term {
	st := ex.st
	if ca, ok := ex.concreteString(a); ok {
		if cb, ok := ex.concreteString(b); ok {
			if orEq {
				return mkBool(ca <= cb)
			}
			return mkBool(ca < cb)
		}
	}
	na, nb := ex.strLenC(a), ex.strLenC(b)
	n := na
	if nb < n {
		n = nb
	}
	// result when all common bytes are equal
	var res *Term
	if orEq {
		res = mkBool(na <= nb)
	} else {
		res = mkBool(na < nb)
	}
	for i := n - 1; i >= 0; i-- {
		x, y := ex.strByte(a, i), ex.strByte(b, i)
		res = st.Ite(st.Ult(x, y), tTrue, st.Ite(st.Ult(y, x), tFalse, res))
	}
	return res
}

// decodeRunes decodes a string with the interpreted unicode/utf8 (forks on
// symbolic bytes).
func (ex *Exec) decodeRunes(s Str) []*Term {
	var out []*Term
	n := ex.strLenC(s)
	pos := int64(0)
	for pos < n {
		r, sz := ex.decodeRuneAt(s, pos, n)
		out = append(out, r)
		pos += sz
	}
	return out
}

func (ex *Exec) decodeRuneAt(s Str, pos, n int64) (*Term, int64) {
	b0 := ex.strByte(s, pos)
	if k, ok := b0.ConstVal(); ok && k < utf8.RuneSelf {
		return mkConst(32, k), 1
	}
	if cs, ok := ex.concreteString(Str{ptrAdd(ex.st, s.p, pos), c64(n - pos)}); ok {
		r, sz := utf8.DecodeRuneInString(cs)
		return mkConst(32, uint64(uint32(r))), int64(sz)
	}
	fn := ex.prog.stdFunc("unicode/utf8", "DecodeRuneInString")
	sub := Str{ptrAdd(ex.st, s.p, pos), c64(n - pos)}
	res := ex.callFunction(fn, []Value{sub}, nil).(Tuple)
	sz := int64(ex.concretize(res[1].(*Term)))
	return res[0].(*Term), sz
}

// ---------- maps ----------

func (ex *Exec) keyEq(kt types.Type, a, b Value) *Term {
	return ex.equal(kt, a, b)
}

func (ex *Exec) mapFind(m *MapObj, k Value) *mapEntry {
	if m == nil {
		return nil
	}
	m = ex.mapR(m)
	for _, e := range m.entries {
		if e.deleted {
			continue
		}
		eq := ex.keyEq(m.kt, e.k, k)
		if ex.branch(eq) {
			return e
		}
	}
	return nil
}

func (ex *Exec) mapSet(m *MapObj, k, v Value) {
	m = ex.mapW(m)
	for _, e := range m.entries {
		if e.deleted {
			continue
		}
		if ex.branch(ex.keyEq(m.kt, e.k, k)) {
			e.v = v
			return
		}
	}
	m.entries = append(m.entries, &mapEntry{k: k, v: v})
}

func (ex *Exec) mapDelete(m *MapObj, k Value) {
	if m == nil {
		return
	}
	m = ex.mapW(m)
	for _, e := range m.entries {
		if e.deleted {
			continue
		}
		if ex.branch(ex.keyEq(m.kt, e.k, k)) {
			e.deleted = true
			return
		}
	}
}

func (ex *Exec) mapLen(m *MapObj) int {
	if m == nil {
		return 0
	}
	m = ex.mapR(m)
	n := 0
	for _, e := range m.entries {
		if !e.deleted {
			n++
		}
	}
	return n
}

func (ex *Exec) lookup(fr *frame, in *ssa.Lookup) Value {
	x := ex.get(fr, in.X)
	k := ex.get(fr, in.Index)
	if s, ok := x.(Str); ok {
		idx := ex.toInt64(k, in.Index.Type())
		if !ex.branch(ex.st.Ult(idx, s.len)) {
			ex.throwRuntime("index out of range")
		}
		return ex.loadNum(Ptr{s.p.obj, ex.st.Bin(OpAdd, s.p.off, idx)}, 1)
	}
	m := x.(*MapObj)
	vt := in.X.Type().Underlying().(*types.Map).Elem()
	e := ex.mapFind(m, k)
	var v Value
	if e != nil {
		v = e.v
	} else {
		v = zeroValue(vt)
	}
	if in.CommaOk {
		return Tuple{v, mkBool(e != nil)}
	}
	return v
}

// ---------- range iterators ----------

type Iter struct {
	entries []*mapEntry
	pos     int
	str     Str
	strN    int64
	strPos  int64
	isStr   bool
	kt, vt  types.Type
}

func (ex *Exec) rangeIter(x Value, t types.Type) *Iter {
	switch v := x.(type) {
	case *MapObj:
		mt := t.Underlying().(*types.Map)
		it := &Iter{kt: mt.Key(), vt: mt.Elem()}
		if v != nil {
			m := ex.mapR(v)
			it.entries = append(it.entries, m.entries...)
			if ex.harness != nil && ex.harness.ReverseMaps {
				for i, j := 0, len(it.entries)-1; i < j; i, j = i+1, j-1 {
					it.entries[i], it.entries[j] = it.entries[j], it.entries[i]
				}
			}
		}
		return it
	case Str:
		return &Iter{isStr: true, str: v, strN: ex.strLenC(v)}
	}
	panic(fmt.Sprintf("range over %T", x))
}

func (it *Iter) next(ex *Exec) Value {
	if it.isStr {
		if it.strPos >= it.strN {
			return Tuple{tFalse, zero64, mkConst(32, 0)}
		}
		r, sz := ex.decodeRuneAt(it.str, it.strPos, it.strN)
		p := it.strPos
		it.strPos += sz
		return Tuple{tTrue, c64(p), r}
	}
	for it.pos < len(it.entries) {
		e := it.entries[it.pos]
		it.pos++
		if e.deleted {
			continue
		}
		return Tuple{tTrue, e.k, e.v}
	}
	return Tuple{tFalse, zeroValue(it.kt), zeroValue(it.vt)}
}

// ---------- channels & goroutines (single-threaded semantics) ----------

func (ex *Exec) chanSend(c *ChanObj, v Value) {
	if c == nil {
		ex.fail(stDeadlock, "send on nil channel blocks forever")
	}
	if c.shared {
		ex.fail(stOutOfModel, "send on init-phase channel")
	}
	if c.closed {
		panic(targetPanic{Iface{t: ex.prog.runtimeErrorType, v: ex.constString("send on closed channel")}})
	}
	if len(c.buf) >= c.cap {
		// give pending goroutines a chance to drain
		ex.runPendingGoroutines()
		if len(c.buf) >= c.cap {
			if ex.harness != nil && ex.harness.OneShotChans {
				ex.fail(stDeadlock, "send blocks forever: no receiver")
			}
			ex.fail(stDeadlock, "send blocks forever (single-goroutine model): no receiver")
		}
	}
	c.buf = append(c.buf, v)
}

func (ex *Exec) chanRecv(c *ChanObj, et types.Type) (Value, bool) {
	if c == nil {
		ex.fail(stDeadlock, "receive on nil channel blocks forever")
	}
	if len(c.buf) == 0 && !c.closed {
		ex.runPendingGoroutines()
	}
	if len(c.buf) > 0 {
		v := c.buf[0]
		c.buf = c.buf[1:]
		return v, true
	}
	if c.closed {
		return zeroValue(et), false
	}
	ex.fail(stDeadlock, "receive blocks forever (single-goroutine model)")
	return nil, false
}

func (ex *Exec) selectOp(fr *frame, in *ssa.Select) Value {
	// ready cases in source order; first ready one is taken (forking over
	// all ready ones when more than one)
	type rc struct{ i int }
	var ready []int
	if in.Blocking {
		// a blocking point: queued goroutines run first (they may make a case ready)
		ex.runPendingGoroutines()
	}
	for i, s := range in.States {
		c := ex.get(fr, s.Chan).(*ChanObj)
		if c == nil {
			continue
		}
		if s.Dir == types.RecvOnly {
			if len(c.buf) > 0 || c.closed {
				ready = append(ready, i)
			}
		} else {
			if c.closed || len(c.buf) < c.cap {
				ready = append(ready, i)
			}
		}
	}
	chosen := -1
	if len(ready) > 0 {
		chosen = ready[ex.choose(len(ready))]
	} else if in.Blocking {
		ex.runPendingGoroutines()
		ex.fail(stDeadlock, "select blocks forever (single-goroutine model)")
	}
	r := Tuple{c64(int64(chosen)), tFalse}
	recvOK := false
	var recvVals []Value
	for i, s := range in.States {
		if s.Dir == types.RecvOnly {
			et := s.Chan.Type().Underlying().(*types.Chan).Elem()
			if i == chosen {
				v, ok := ex.chanRecv(ex.get(fr, s.Chan).(*ChanObj), et)
				recvOK = ok
				recvVals = append(recvVals, v)
			} else {
				recvVals = append(recvVals, zeroValue(et))
			}
		} else if i == chosen {
			ex.chanSend(ex.get(fr, s.Chan).(*ChanObj), ex.get(fr, s.Send))
		}
	}
	r[1] = mkBool(recvOK)
	r = append(r, recvVals...)
	return r
}

// spawn: goroutines are queued and run to completion at the next blocking
// point of the spawning code or at harness end (one legal schedule).
func (ex *Exec) spawn(fn Value, args []Value) {
	if ex.harness == nil || !ex.harness.AllowGo {
		ex.fail(stOutOfModel, "go statement (goroutines not enabled for this harness)")
	}
	ex.goq = append(ex.goq, func() {
		if b, ok := fn.(*ssa.Builtin); ok {
			ex.callBuiltin(b, args, nil, nil)
			return
		}
		ex.callValue(fn, args, nil)
	})
}

func (ex *Exec) runPendingGoroutines() {
	for len(ex.goq) > 0 {
		g := ex.goq[0]
		ex.goq = ex.goq[1:]
		g()
	}
}

// ---------- builtins ----------

func (ex *Exec) callBuiltin(b *ssa.Builtin, args []Value, fr *frame, site *ssa.Call) Value {
	st := ex.st
	switch b.Name() {
	case "len":
		switch x := args[0].(type) {
		case Slice:
			return x.len
		case Str:
			return x.len
		case *MapObj:
			return c64(int64(ex.mapLen(x)))
		case *ChanObj:
			if x == nil {
				return zero64
			}
			return c64(int64(len(x.buf)))
		case Ptr: // *array
			at := site.Call.Args[0].Type().Underlying().(*types.Pointer).Elem().Underlying().(*types.Array)
			return c64(at.Len())
		case Agg:
			return c64(int64(len(x)))
		}
	case "cap":
		switch x := args[0].(type) {
		case Slice:
			return x.cap
		case *ChanObj:
			if x == nil {
				return zero64
			}
			return c64(int64(x.cap))
		case Ptr:
			at := site.Call.Args[0].Type().Underlying().(*types.Pointer).Elem().Underlying().(*types.Array)
			return c64(at.Len())
		case Agg:
			return c64(int64(len(x)))
		}
	case "append":
		return ex.builtinAppend(args, b, site)
	case "copy":
		dst := args[0].(Slice)
		var sp Ptr
		var sl *Term
		switch s := args[1].(type) {
		case Slice:
			sp, sl = s.p, s.len
		case Str:
			sp, sl = s.p, s.len
		}
		n := st.Ite(st.Ult(dst.len, sl), dst.len, sl)
		nc := int64(ex.concretize(n))
		es := ex.elemSizeOfSliceArg(b, site, 0)
		if nc > 0 {
			ex.memmove(dst.p, sp, nc*es)
		}
		return c64(nc)
	case "delete":
		ex.mapDelete(args[0].(*MapObj), args[1])
		return nil
	case "close":
		c := args[0].(*ChanObj)
		if c == nil {
			ex.throwRuntime("close of nil channel")
		}
		if c.closed {
			ex.throwRuntime("close of closed channel")
		}
		c.closed = true
		return nil
	case "print", "println":
		return nil
	case "recover":
		return ex.doRecover(fr)
	case "ssa:wrapnilchk":
		if p, ok := args[0].(Ptr); ok && p.obj == nil {
			ex.throwRuntime("value method called using nil pointer")
		}
		return args[0]
	case "min", "max":
		return ex.builtinMinMax(b.Name() == "min", args, site)
	case "clear":
		switch x := args[0].(type) {
		case *MapObj:
			if x != nil {
				m := ex.mapW(x)
				for _, e := range m.entries {
					e.deleted = true
				}
			}
		case Slice:
			n := int64(ex.concretize(x.len))
			es := ex.elemSizeOfSliceArg(b, site, 0)
			if n > 0 {
				off := int64(ex.concretize(x.p.off))
				o := ex.w(x.p.obj)
				ex.checkAccess(o, off, n*es, true)
				ex.clearRange(o, off, n*es)
				if o.base != nil {
					for i := int64(0); i < n*es; i++ {
						o.base[off+i] = 0
					}
				}
			}
		}
		return nil
	case "Add": // unsafe.Add
		p := args[0].(Ptr)
		d := ex.toInt64(args[1], site.Call.Args[1].Type())
		return Ptr{p.obj, st.Bin(OpAdd, p.off, d)}
	case "Slice": // unsafe.Slice(ptr, len)
		p := args[0].(Ptr)
		n := ex.toInt64(args[1], site.Call.Args[1].Type())
		return Slice{p, n, n}
	case "SliceData":
		return args[0].(Slice).p
	case "String": // unsafe.String(ptr, len)
		p := args[0].(Ptr)
		n := ex.toInt64(args[1], site.Call.Args[1].Type())
		return Str{p, n}
	case "StringData":
		return args[0].(Str).p
	}
	panic(pathEnd{stOutOfModel, fmt.Sprintf("builtin %s(%T)", b.Name(), args[0])})
}

func (ex *Exec) elemSizeOfSliceArg(b *ssa.Builtin, site *ssa.Call, i int) int64 {
	var t types.Type
	if site != nil {
		t = site.Call.Args[i].Type()
	} else {
		t = b.Type().(*types.Signature).Params().At(i).Type()
	}
	switch u := t.Underlying().(type) {
	case *types.Slice:
		return sizeof(u.Elem())
	case *types.Basic:
		return 1
	}
	panic(fmt.Sprintf("elemSizeOfSliceArg: %v", t))
}

func (ex *Exec) builtinMinMax(isMin bool, args []Value, site *ssa.Call) Value {
	st := ex.st
	res := args[0]
	for i, a := range args[1:] {
		switch x := res.(type) {
		case *Term:
			_, signed, _ := isIntType(site.Call.Args[i].Type())
			y := a.(*Term)
			var lt *Term
			a1, a2 := y, x
			if !isMin {
				a1, a2 = x, y
			}
			if signed {
				lt = st.Slt(a1, a2)
			} else {
				lt = st.Ult(a1, a2)
			}
			res = st.Ite(lt, y, x)
		case Float:
			y := a.(Float)
			if (isMin && y.f < x.f) || (!isMin && y.f > x.f) {
				res = y
			}
		default:
			ex.fail(stOutOfModel, "min/max on %T", res)
		}
	}
	return res
}

func (ex *Exec) builtinAppend(args []Value, b *ssa.Builtin, site *ssa.Call) Value {
	st := ex.st
	s := args[0].(Slice)
	var tp Ptr
	var tl *Term
	switch t := args[1].(type) {
	case Slice:
		tp, tl = t.p, t.len
	case Str:
		tp, tl = t.p, t.len
	}
	es := ex.elemSizeOfSliceArg(b, site, 0)
	n2 := int64(ex.concretize(tl))
	if n2 == 0 {
		return s
	}
	ln := int64(ex.concretize(s.len))
	cp := int64(ex.concretize(s.cap))
	if ln+n2 <= cp {
		dst := Ptr{s.p.obj, st.Bin(OpAdd, s.p.off, c64(ln*es))}
		ex.memmove(dst, tp, n2*es)
		return Slice{s.p, c64(ln + n2), s.cap}
	}
	newcap := cp * 2
	if cp >= 256 {
		newcap = cp + (cp+3*256)/4
	}
	if newcap < ln+n2 {
		newcap = ln + n2
	}
	// round up like the runtime's size classes would only ever enlarge
	if newcap*es > 1<<28 {
		ex.fail(stBudget, "append grows beyond 256MiB")
	}
	o := ex.newObject(newcap*es, "append")
	if s.p.obj != nil {
		o.elem = ex.r(s.p.obj).elem
	}
	if ln > 0 {
		ex.memmove(Ptr{o, zero64}, s.p, ln*es)
	}
	ex.memmove(Ptr{o, c64(ln * es)}, tp, n2*es)
	return Slice{Ptr{o, zero64}, c64(ln + n2), c64(newcap)}
}

func (ex *Exec) doRecover(fr *frame) Value {
	// recover() has effect only when called directly by a deferred function
	// whose caller is panicking.
	if fr != nil && !fr.panicking && fr.caller != nil && fr.caller.panicking {
		fr.caller.panicking = false
		v := fr.caller.panicVal
		fr.caller.panicVal = nil
		if v == nil {
			return Iface{}
		}
		return v
	}
	return Iface{}
}

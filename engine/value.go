package main

import (
	"fmt"
	"go/types"
	"math"

	"golang.org/x/tools/go/ssa"
)

// Value is one of:
//   *Term      integer (bit-vector) or bool
//   Float      concrete float (32/64)
//   Ptr        pointer (obj==nil: nil)
//   PtrInt     uintptr carrying pointer provenance
//   Slice, Str, Iface, *Closure, *MapObj, *ChanObj
//   Agg        struct or array held in a register
//   Tuple      multi-value result
//   Opaque     result of an unmodelled call
//   *Iter      range iterator
type Value interface{}

type Float struct {
	f float64
	w   uint8 // 32 or 64
}

type Ptr struct {
	obj *Object
	off *Term // BV64
}

type PtrInt struct{ p Ptr }

type Slice struct {
	p        Ptr
	len, cap *Term // BV64
}

type Str struct {
	p   Ptr
	len *Term
}

type Iface struct {
	t types.Type
	v Value
}

type Closure struct {
	fn  *ssa.Function
	env []Value
	// intrinsic closure (engine-provided function value)
	native func(ex *Exec, args []Value) Value
}

type Agg []Value
type Tuple []Value

type Opaque struct{ tag string }

type mapEntry struct {
	k, v    Value
	deleted bool
}

type MapObj struct {
	id      int
	entries []*mapEntry
	shared  bool
	kt      types.Type
}

type ChanObj struct {
	id     int
	buf    []Value
	cap    int
	closed bool
	shared bool
}

var zero64, one64 *Term // set in term.go init()

func c64(v int64) *Term { return mkConst(64, uint64(v)) }

func nilPtr() Ptr { return Ptr{nil, zero64} }

func (p Ptr) isNil() bool { return p.obj == nil }

// ---------- objects ----------

type cell struct {
	w uint8 // bytes
	v Value
}

type Object struct {
	id     int
	size   int64
	cells  map[int64]cell
	base   []byte
	shared bool
	ro     bool
	dead   bool
	label  string
	// provenance for diagnostics
	elem types.Type
	// symbolic write log (see memory.go)
	sym []symCell
}

func (o *Object) String() string {
	return fmt.Sprintf("obj#%d(%s,%dB)", o.id, o.label, o.size)
}

func (o *Object) clone() *Object {
	n := &Object{id: o.id, size: o.size, ro: o.ro, dead: o.dead, label: o.label, elem: o.elem}
	n.sym = append([]symCell(nil), o.sym...)
	if o.base != nil {
		n.base = append([]byte(nil), o.base...)
	}
	n.cells = make(map[int64]cell, len(o.cells))
	for k, v := range o.cells {
		n.cells[k] = v
	}
	return n
}

// ---------- type helpers ----------

var stdSizes = &types.StdSizes{WordSize: 8, MaxAlign: 8}

func sizeof(t types.Type) int64 {
	return stdSizes.Sizeof(t)
}

func intWidth(b *types.Basic) (w uint8, signed bool) {
	switch b.Kind() {
	case types.Int8:
		return 8, true
	case types.Int16:
		return 16, true
	case types.Int32, types.UntypedRune:
		return 32, true
	case types.Int64, types.Int, types.UntypedInt:
		return 64, true
	case types.Uint8:
		return 8, false
	case types.Uint16:
		return 16, false
	case types.Uint32:
		return 32, false
	case types.Uint64, types.Uint, types.Uintptr:
		return 64, false
	}
	return 0, false
}

func isIntType(t types.Type) (uint8, bool, bool) {
	if b, ok := t.Underlying().(*types.Basic); ok {
		w, s := intWidth(b)
		if w != 0 {
			return w, s, true
		}
	}
	return 0, false, false
}

func isFloatType(t types.Type) (uint8, bool) {
	if b, ok := t.Underlying().(*types.Basic); ok {
		switch b.Kind() {
		case types.Float32:
			return 32, true
		case types.Float64, types.UntypedFloat:
			return 64, true
		}
	}
	return 0, false
}

func isBoolType(t types.Type) bool {
	b, ok := t.Underlying().(*types.Basic)
	return ok && b.Info()&types.IsBoolean != 0
}

func isStringType(t types.Type) bool {
	b, ok := t.Underlying().(*types.Basic)
	return ok && b.Info()&types.IsString != 0
}

func isUnsafePointer(t types.Type) bool {
	b, ok := t.Underlying().(*types.Basic)
	return ok && b.Kind() == types.UnsafePointer
}

func isUintptr(t types.Type) bool {
	b, ok := t.Underlying().(*types.Basic)
	return ok && b.Kind() == types.Uintptr
}

// zeroValue returns the zero register value of type t.
func zeroValue(t types.Type) Value {
	switch u := t.Underlying().(type) {
	case *types.Basic:
		if w, _, ok := isIntType(t); ok {
			return mkConst(w, 0)
		}
		switch {
		case u.Info()&types.IsBoolean != 0:
			return tFalse
		case u.Info()&types.IsString != 0:
			return Str{nilPtr(), zero64}
		case u.Kind() == types.UnsafePointer:
			return nilPtr()
		case u.Kind() == types.Float32:
			return Float{w: 32}
		case u.Kind() == types.Float64 || u.Kind() == types.UntypedFloat:
			return Float{w: 64}
		case u.Kind() == types.UntypedNil:
			return nil
		}
		panic(fmt.Sprintf("zeroValue: basic %v", u))
	case *types.Pointer:
		return nilPtr()
	case *types.Slice:
		return Slice{nilPtr(), zero64, zero64}
	case *types.Map:
		return (*MapObj)(nil)
	case *types.Chan:
		return (*ChanObj)(nil)
	case *types.Signature:
		return (*Closure)(nil)
	case *types.Interface:
		return Iface{}
	case *types.Struct:
		a := make(Agg, u.NumFields())
		for i := range a {
			a[i] = zeroValue(u.Field(i).Type())
		}
		return a
	case *types.Array:
		n := u.Len()
		if n > 1<<16 {
			panic(pathEnd{stOutOfModel, fmt.Sprintf("zero value of huge array %v", t)})
		}
		a := make(Agg, n)
		z := zeroValue(u.Elem())
		for i := range a {
			a[i] = z
		}
		return a
	case *types.Tuple:
		a := make(Tuple, u.Len())
		for i := range a {
			a[i] = zeroValue(u.At(i).Type())
		}
		return a
	}
	panic(fmt.Sprintf("zeroValue: %T %v", t, t))
}

func floatBits(f Float) uint64 {
	if f.w == 32 {
		return uint64(math.Float32bits(float32(f.f)))
	}
	return math.Float64bits(f.f)
}

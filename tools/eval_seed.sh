#!/bin/bash
# usage: eval_seed.sh <property id> <suffix, e.g. b> [check.py args]
# Confirms the seed produced under /tmp/mut_out/<id> (existing tests pass, demo fails with / passes without),
# stores it as /verif/seeded/<id>-<suffix>/, then applies it to /repo, runs the property's quick check and reverts.
set -u
ID=$1; SUF=$2; shift 2
OUT=${SEED_OUT:-/tmp/mut_out}/$ID
[ -f $OUT/patch.diff ] || { echo "no patch for $ID"; exit 9; }
PKG=$(python3 -c "import json;print(json.load(open('$OUT/meta.json')).get('demo_pkg','.'))" 2>/dev/null || echo .)
RUN=$(python3 -c "import json;print(json.load(open('$OUT/meta.json')).get('demo_run','Demo'))" 2>/dev/null || echo Demo)
EX=$(python3 -c "import json;print(json.load(open('$OUT/meta.json')).get('existing_tests','.'))" 2>/dev/null || echo .)
git -C /repo worktree remove --force /tmp/mut_$ID 2>/dev/null; git -C /repo worktree remove --force /tmp/mutb_$ID 2>/dev/null; git -C /repo worktree remove --force /tmp/mutc_$ID 2>/dev/null; git -C /repo worktree remove --force /tmp/mutd_$ID 2>/dev/null
bash /verif/tools/confirm_seed.sh $ID $OUT "$PKG" "$RUN" $EX 2>&1 | tail -12
D=/verif/seeded/$ID-$SUF; mkdir -p $D
cp $OUT/patch.diff $OUT/demo_test.go $D/; cp $OUT/AGENT_README.md $D/ 2>/dev/null; cp $OUT/meta.json $D/meta.json 2>/dev/null
echo "== check with seed applied (scratch worktree, /repo untouched)"
W=/tmp/evalrepo_$ID
git -C /repo worktree remove --force $W 2>/dev/null
git -C /repo worktree add -q --detach $W HEAD || exit 9
git -C $W apply $D/patch.diff || { echo PATCH-DOES-NOT-APPLY-TO-REPO; git -C /repo worktree remove --force $W; exit 9; }
(cd /verif; VERIF_REPO=$W VERIF_EVIDENCE_DIR=/tmp/seed-evidence timeout 1800 python3 check.py $ID "$@" 2>&1 | grep "VIOLATION\|^property\|PROBLEM\|KNOWN" | cut -c1-260 | head -8)
git -C /repo worktree remove --force $W

#!/bin/bash
# Trials the thorough bounds of every harness (one harness at a time) and prints which ran clean.
# usage: try_thorough.sh <out file> <Cxx>...
OUT=$1; shift
cd "$(dirname "$0")/.."
[ -x bin/gosym ] || bash tools/setup.sh >/dev/null 2>&1
for id in "$@"; do
  for h in $(python3 - "$id" <<'PY'
import sys
ns={}
exec(open('harness/index.py').read(),ns)
for h in ns['INDEX'][sys.argv[1]]['harnesses']:
    if 'thorough' in h and not h.get('thorough_ok'): print(h['name'])
PY
); do
    s=$(date +%s)
    VERIF_TRY_THOROUGH=1 VERIF_EVIDENCE_DIR=/tmp/thorough_evidence timeout 3000 python3 check.py $id --tier thorough --only "^$h\$" > /tmp/thor_$h.log 2>&1; rc=$?
    e=$(date +%s)
    echo "$id $h rc=$rc t=$((e-s))s $(grep '^harness' /tmp/thor_$h.log | cut -c50-130)" >> $OUT
  done
done
echo DONE >> $OUT

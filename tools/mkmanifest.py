#!/usr/bin/env python3
"""Regenerates /verif/MANIFEST.json from harness/index.json and tools/claims.json."""
import json, os

V = os.path.dirname(os.path.dirname(os.path.abspath(__file__)))
_ns = {}
exec(open(os.path.join(V, "harness", "index.py")).read(), _ns)
index = _ns["INDEX"]
claims = json.load(open(os.path.join(V, "tools", "claims.json")))
props = [json.loads(l) for l in open(os.path.join(V, "properties.jsonl"))]

checks, na = [], []
for p in props:
    pid = p["id"]
    c = claims.get(pid, {})
    if pid in index and not c.get("not_applicable"):
        checks.append({
            "property_id": pid,
            "quick_cmd": "python3 check.py %s --tier quick" % pid,
            "thorough_cmd": "python3 check.py %s --tier thorough" % pid,
            "evidence_file": "evidence/%s.json" % pid,
            "replay_cmd_template": "python3 check.py %s --replay {path}" % pid,
            "engine": "gosym",
            "level_claimed": {"category": "model_checking", "text": (c.get("text") or claims["_default_text"]) + (" Scope: " + c["scope"] + "." if c.get("scope") else ""), "design_ref": c.get("design_ref", "DESIGN.md section 4, " + pid)},
            "level_note": c.get("note") or claims["_default_note"],
            "technique": c.get("technique", "bounded symbolic execution of the real Go code (go/ssa -> SMT bit-vectors), z3 decides every path obligation; counterexamples replayed natively"),
        })
    else:
        na.append({"property_id": pid, "reason": c.get("reason", "no solver-based check built for this property yet")})

m = {
    "version": 1,
    "setup_cmd": "bash tools/setup.sh",
    "hooks": {
        "guard": "verif",
        "enable": "none needed: harnesses are injected as go/packages overlays (engine) and `go test -overlay` files (native replay); no source hooks exist in /repo",
        "baseline_off_cmd": "bash tools/repotest.sh ./...",
        "source_commits": [],
        "add_only": True,
    },
    "engines": [{
        "name": "gosym", "path": "engine/",
        "serves_properties": [c["property_id"] for c in checks],
        "kind_free_text": "KLEE-style bounded symbolic interpreter for go/ssa (x/tools v0.29.0) written for this task: byte-addressed memory with unsafe views, fork by re-execution, z3 5.1.0 (z3-new) over a pipe per worker with cvc5 1.0 / z3 4.8.12 as non-incremental fall-backs on unknown, in-memory file system for the os/syscall file API; models replayed natively via go test -overlay",
    }],
    "checks": checks,
    "not_applicable": na,
    "notes": "All checks load /repo's current working tree on every run (go/packages + overlay); nothing is cached. Exit 2 (BOUND-PROBLEM / ENGINE-MISMATCH / ENGINE-ERROR lines) means the run was inconclusive, never a verdict.",
}
json.dump(m, open(os.path.join(V, "MANIFEST.json"), "w"), indent=1)
print("checks:", [c["property_id"] for c in checks])
print("not_applicable:", [x["property_id"] for x in na])

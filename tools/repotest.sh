#!/bin/bash
# Runs the repository's tests with the verif guard OFF, without touching /repo/go.mod.
# usage: repotest.sh [packages...]   (default ./...)
set -e
export GOFLAGS=-mod=mod GOPROXY=off GOSUMDB=off GOTOOLCHAIN=local
S=$(mktemp -d)
trap 'rm -rf "$S"' EXIT
cp /repo/go.mod /repo/go.sum "$S"/
cd /repo
PK=("$@"); [ ${#PK[@]} -eq 0 ] && PK=(./...)
go test -modfile="$S/go.mod" -vet=off -count=1 -timeout 25m "${PK[@]}"

#!/bin/bash
# usage: confirm_seed.sh <name> <outdir with patch.diff+demo_test.go> <demo pkg dir rel> <demo run regex> <existing-test args...>
# Confirms a seeded change in a scratch worktree: existing tests pass with it, demo fails with it and passes without it.
set -u
export GOFLAGS=-mod=mod GOPROXY=off GOSUMDB=off GOTOOLCHAIN=local
NAME=$1; OUT=$2; PKG=$3; RUN=$4; shift 4
W=/tmp/confirm_$NAME
git -C /repo worktree remove --force $W 2>/dev/null
git -C /repo worktree add -q --detach $W HEAD || exit 9
cd $W
git apply $OUT/patch.diff || { echo "PATCH-DOES-NOT-APPLY"; exit 9; }
echo "== existing tests with change: go test $*"
go test -vet=off -count=1 "$@" 2>&1 | tail -8; E=${PIPESTATUS[0]}
cp $OUT/demo_test.go $PKG/zz_demo_test.go
echo "== demo with change (expect FAIL)"
go test -vet=off -count=1 -run "$RUN" ./$PKG 2>&1 | tail -6; A=${PIPESTATUS[0]}
git apply -R $OUT/patch.diff
echo "== demo without change (expect PASS)"
go test -vet=off -count=1 -run "$RUN" ./$PKG 2>&1 | tail -4; B=${PIPESTATUS[0]}
cd /; git -C /repo worktree remove --force $W
echo "RESULT existing=$E demo_with=$A demo_without=$B"
[ $E -eq 0 ] && [ $A -ne 0 ] && [ $B -eq 0 ] && echo CONFIRMED

# Harness registry: property -> package, harnesses with per-tier bounds.
# Edited by hand; read by check.py and tools/mkmanifest.py.
INDEX = {
 "C01": {"package": "./roaring", "harnesses": [
   {"name": "VerifH01RunCountRange", "quick": {"bounds": {"runs": 2}}, "thorough": {"bounds": {"runs": 3}}},
   {"name": "VerifH01ArrayCountRange", "quick": {"bounds": {"array": 3}}, "thorough": {"bounds": {"array": 5}}},
   {"name": "VerifH01BitmapCountRange", "common": {"max_depth": 2000}, "quick": {"bounds": {"words": 1, "bases": 2, "wordmask6": 1}}, "thorough": {"bounds": {"words": 2, "bases": 3}}},
   {"name": "VerifH01Intersect", "common": {"max_depth": 2000}, "quick": {"bounds": {"runs": 2, "array": 2, "words": 1, "runlen": 3, "wordmask6": 1, "bases": 2, "near": 1}}},
   {"name": "VerifH01IntersectionCount", "common": {"max_depth": 2000}, "quick": {"bounds": {"runs": 2, "array": 2, "words": 1, "wordmask6": 1, "bases": 2, "near": 1}}},
   {"name": "VerifH01Difference", "common": {"max_depth": 2000}, "quick": {"bounds": {"runs": 2, "array": 2, "words": 1, "runlen": 3, "wordmask6": 1, "bases": 2, "near": 1}}},
   {"name": "VerifH01DenseIntersect", "common": {"max_depth": 4000}, "quick": {"bounds": {"runs": 2, "words": 1, "wordmask6": 1, "bases": 2, "near": 2, "pairs": 4, "cardinality": 0}}},
   {"name": "VerifH01DenseUnion", "common": {"max_depth": 4000}, "quick": {"bounds": {"runs": 2, "words": 1, "wordmask6": 1, "bases": 2, "near": 2, "pairs": 4, "cardinality": 0}}},
   {"name": "VerifH01DenseDifference", "common": {"max_depth": 4000}, "quick": {"bounds": {"runs": 2, "words": 1, "wordmask6": 1, "bases": 2, "near": 2, "pairs": 1, "cardinality": 0}}},
   {"name": "VerifH01DenseXor", "common": {"max_depth": 4000}, "quick": {"bounds": {"runs": 1, "words": 1, "wordmask6": 1, "bases": 2, "near": 2, "pairs": 3, "cardinality": 0}}},
   {"name": "VerifH01Contains", "quick": {"bounds": {"array": 3, "runs": 2, "words": 1, "bases": 2}}},
   {"name": "VerifH01Add", "quick": {"bounds": {"array": 3, "runs": 2, "words": 1, "bases": 2}}},
   {"name": "VerifH01Remove", "quick": {"bounds": {"array": 3, "runs": 2, "words": 1, "bases": 2}}},
   {"name": "VerifH01Max", "quick": {"bounds": {"array": 3, "runs": 2, "words": 1, "bases": 2}}},
   {"name": "VerifH01Optimize", "quick": {"bounds": {"array": 3, "runs": 2, "words": 1, "bases": 2, "wordmask6": 1}}},
   {"name": "VerifH01Clone", "quick": {"bounds": {"array": 3, "runs": 2, "words": 1, "bases": 2}}},
   {"name": "VerifH01Shift", "quick": {"bounds": {"array": 3, "runs": 2, "words": 1, "bases": 2, "wordmask6": 1}}},
   {"name": "VerifH01Convert", "common": {"max_depth": 2000}, "quick": {"bounds": {"array": 2, "runs": 2, "words": 1, "bases": 2, "wordmask6": 1, "runlen": 3}}},
 ]},
 "C02": {"package": "./roaring", "harnesses": [
   {"name": "VerifH02HistorySlice", "common": {"max_depth": 2000}, "quick": {"bounds": {"steps": 2, "ops": 6, "keys": 2}}, "thorough": {"bounds": {"steps": 3, "ops": 6, "keys": 2}, "max_paths": 400000}},
   {"name": "VerifH02HistoryBTree", "common": {"max_depth": 2000}, "quick": {"bounds": {"steps": 2, "ops": 6, "keys": 2}}, "thorough": {"bounds": {"steps": 3, "ops": 6, "keys": 2}, "max_paths": 400000}},
   {"name": "VerifH02PointOpsSlice", "common": {"max_depth": 2000}, "quick": {"bounds": {"steps": 3, "ops": 2, "keys": 2}}, "thorough": {"bounds": {"steps": 4, "ops": 3, "keys": 2}}},
   {"name": "VerifH02PointOpsBTree", "common": {"max_depth": 2000}, "quick": {"bounds": {"steps": 3, "ops": 2, "keys": 2}}, "thorough": {"bounds": {"steps": 4, "ops": 3, "keys": 2}}},
   {"name": "VerifH02CyclesSlice", "common": {"max_depth": 3000}, "quick": {"bounds": {"steps": 3, "ops": 3, "keys": 1}}, "thorough": {"bounds": {"steps": 3, "ops": 4, "keys": 2}}},
   {"name": "VerifH02CyclesBTree", "common": {"max_depth": 3000}, "quick": {"bounds": {"steps": 3, "ops": 3, "keys": 1}}, "thorough": {"bounds": {"steps": 3, "ops": 4, "keys": 2}}},
 ]},
 "C03": {"package": "./roaring", "harnesses": [
   {"name": "VerifH03Isolation", "common": {"max_depth": 3000}, "quick": {"bounds": {"atyps": 1, "array": 2, "runs": 1, "words": 1, "bases": 1, "wordmask6": 1, "runlen": 2, "derivations": 7, "mutations": 5, "kinds": 1, "btyps": 1}}, "thorough": {"bounds": {"array": 2, "runs": 1, "words": 1, "bases": 1, "wordmask6": 1, "runlen": 2, "derivations": 7, "mutations": 7, "kinds": 2, "btyps": 2}, "max_paths": 600000}},
   {"name": "VerifH03Operands", "common": {"max_depth": 3000}, "quick": {"bounds": {"fulls": 3, "atyps": 2, "btyps": 2, "array": 2, "runs": 1, "words": 1, "bases": 1, "wordmask6": 1, "runlen": 2, "derivations": 4, "mutations": 2}}},
   {"name": "VerifH03TimeRangeResults", "thorough_ok": True, "package": ".", "common": {"max_depth": 3000}, "quick": {"bounds": {"quanta": 2}}, "thorough": {"bounds": {"quanta": 3}}},
 ]},
 "C04": {"package": "./roaring", "harnesses": [
   {"name": "VerifH04RoundTrip", "common": {"max_depth": 2000}, "quick": {"bounds": {"containers": 1, "array": 2, "runs": 2, "words": 1, "bases": 1, "wordmask6": 1, "keychoices": 2}}, "thorough": {"bounds": {"containers": 2, "array": 3, "runs": 3, "words": 1, "bases": 2, "wordmask6": 1, "keychoices": 2}}},
   {"name": "VerifH04Import", "common": {"max_depth": 2000}, "quick": {"bounds": {"array": 1, "runs": 1, "words": 1, "bases": 1, "wordmask6": 1, "runlen": 2, "near": 1, "full": 1, "tkinds": 2, "ttyps": 1, "styps": 1}}, "thorough": {"bounds": {"array": 2, "runs": 2, "words": 1, "bases": 1, "wordmask6": 1, "runlen": 3, "near": 1, "full": 1, "tkinds": 2}}},
   {"name": "VerifH04HistoryRoundTripSlice", "common": {"max_depth": 3000}, "quick": {"bounds": {"steps": 2, "keys": 2}}, "thorough": {"bounds": {"steps": 3, "keys": 2}}},
   {"name": "VerifH04HistoryRoundTripBTree", "common": {"max_depth": 3000}, "quick": {"bounds": {"steps": 2, "keys": 2}}, "thorough": {"bounds": {"steps": 3, "keys": 2}}},
 ]},
 "C05": {"package": "./roaring", "harnesses": [
   {"name": "VerifH05OpLog", "common": {"max_depth": 2000}, "quick": {"bounds": {"steps": 2, "ops": 4, "keys": 1}}, "thorough": {"bounds": {"steps": 2, "ops": 4, "keys": 2}, "max_paths": 400000}},
   {"name": "VerifH05OpLogStep", "common": {"max_depth": 2000}, "quick": {"bounds": {"steps": 1, "ops": 6, "keys": 2}}},
   {"name": "VerifH05FragmentFile", "thorough_ok": True, "package": ".", "common": {"max_depth": 4000}, "quick": {"bounds": {"steps": 3, "ops": 2, "maxopn": 4, "values": 2}}, "thorough": {"bounds": {"steps": 3, "ops": 2, "maxopn": 7, "values": 3}}},
 ]},
 "C06": {"package": "./roaring", "harnesses": [
   {"name": "VerifH06UnmarshalBinary", "common": {"max_depth": 2000}, "quick": {"bounds": {"len": 12}}, "thorough": {"bounds": {"len": 20}}},
   {"name": "VerifH06UnmarshalPilosa", "common": {"max_depth": 2000}, "quick": {"bounds": {"len": 20}}, "thorough": {"bounds": {"len": 32}}},
   {"name": "VerifH06ImportRoaringBits", "common": {"max_depth": 2000}, "quick": {"bounds": {"len": 12}}, "thorough": {"bounds": {"len": 20}}},
   {"name": "VerifH06OpUnmarshal", "common": {"max_depth": 2000}, "quick": {"bounds": {"len": 22}}, "thorough": {"bounds": {"len": 30}}},
   {"name": "VerifH06HugeNumbers", "package": "./pql", "common": {"max_depth": 4000, "max_steps": 20000000}, "quick": {"bounds": {"digits": 400}}},
   {"name": "VerifH06ParseArbitrary", "package": "./pql", "common": {"max_depth": 4000}, "quick": {"bounds": {"len": 2}}, "thorough": {"bounds": {"len": 3}}},
 ]},
 "C07": {"package": ".", "harnesses": [
   {"name": "VerifH07History", "common": {"max_depth": 2000}, "quick": {"bounds": {"steps": 2, "ops": 9, "rows": 2, "colhis": 1, "caches": 1}}, "thorough": {"bounds": {"steps": 2, "ops": 9, "rows": 3, "colhis": 2, "caches": 3}}},
   {"name": "VerifH07Values", "common": {"max_depth": 3000}, "quick": {"bounds": {"steps": 2, "ops": 4, "depth": 2}}, "thorough": {"bounds": {"steps": 3, "ops": 4, "depth": 2}}},
   {"name": "VerifH07MutexCaches", "common": {"max_depth": 3000}, "quick": {"bounds": {"steps": 3, "ops": 3, "batch": 1, "rows": 2}}, "thorough": {"bounds": {"steps": 3, "ops": 4, "batch": 2, "rows": 2}}},
 ]},
 "C08": {"package": ".", "harnesses": [
   {"name": "VerifH08IntField", "common": {"max_depth": 3000}, "quick": {"bounds": {"values": 1, "magnitude": 7}}, "thorough": {"bounds": {"values": 2, "magnitude": 100}}},
   {"name": "VerifH08FieldMeta", "common": {"max_depth": 3000}, "quick": {"bounds": {}}},
   {"name": "VerifH08IndexMeta", "common": {"max_depth": 3000}, "quick": {"bounds": {}}},
   {"name": "VerifH08IndexRestart", "thorough_ok": True, "common": {"max_depth": 4000, "allow_go": True}, "quick": {"bounds": {"types": 5, "writes": 1}}, "thorough": {"bounds": {"types": 5, "writes": 2}}},
 ]},
 "C09": {"package": "./roaring", "harnesses": [
   {"name": "VerifH09OpLogCrash", "thorough_ok": True, "common": {"max_depth": 3000}, "quick": {"bounds": {"steps": 2, "ops": 4, "keys": 1}}, "thorough": {"bounds": {"steps": 2, "ops": 4, "keys": 2}}},
   {"name": "VerifH09TranslateCrash", "package": ".", "common": {"max_depth": 3000}, "quick": {"bounds": {"batches": 2, "keys": 1, "keylen": 1, "xxhash_values": 2}}, "thorough": {"bounds": {"batches": 2, "keys": 2, "keylen": 2, "xxhash_values": 3}}},
   {"name": "VerifH09SnapshotFiles", "package": ".", "common": {"max_depth": 4000}, "quick": {"bounds": {"steps1": 1, "steps2": 1, "ops": 4, "rows": 1}}, "thorough": {"bounds": {"steps1": 2, "steps2": 1, "ops": 5, "rows": 2}}},
   {"name": "VerifH09FragmentCrash", "package": ".", "common": {"max_depth": 3000}, "quick": {"bounds": {"steps": 2, "ops": 8, "rows": 2}}, "thorough": {"bounds": {"steps": 2, "ops": 8, "rows": 4}}},
   {"name": "VerifH09MutexCrash", "package": ".", "common": {"max_depth": 3000}, "quick": {"bounds": {"steps": 2, "ops": 4, "rows": 2}}, "thorough": {"bounds": {"steps": 3, "ops": 4, "rows": 3}}},
 ]},
 "C10": {"package": ".", "harnesses": [
   {"name": "VerifH10Checksums", "thorough_ok": True, "common": {"max_depth": 2000}, "quick": {"bounds": {"ops": 9, "rows": 2, "colhis": 1, "caches": 3}}, "thorough": {"bounds": {"ops": 9, "rows": 3, "colhis": 2, "caches": 3}}},
   {"name": "VerifH10ValueChecksums", "common": {"max_depth": 4000}, "quick": {"bounds": {"maxopns": 2, "depth": 2, "ops1": 1, "ops": 4, "cols": 1}}, "thorough": {"bounds": {"maxopns": 2, "depth": 2, "ops1": 4, "ops": 4, "cols": 2}}},
 ]},
 "C11": {"package": ".", "harnesses": [
   {"name": "VerifH11MergeBlock", "common": {"max_depth": 2000}, "quick": {"bounds": {"local": 1, "remotes": 2, "pairs": 2, "rows": 2, "colhis": 1}}, "thorough": {"bounds": {"local": 2, "remotes": 3, "pairs": 2, "rows": 3, "colhis": 2}}},
   {"name": "VerifH11SyncBlock", "common": {"max_depth": 3000}, "quick": {"bounds": {"bits": 2, "rows": 2, "colhis": 1}}, "thorough": {"bounds": {"bits": 3, "rows": 2, "colhis": 2}}},
 ]},
 "C12": {"package": ".", "harnesses": [
   {"name": "VerifH12TopIDs", "common": {"max_depth": 3000}, "quick": {"bounds": {"steps": 2, "ops": 9, "rows": 2, "colhis": 1, "caches": 2, "cachesizes": 1, "filters": 2}}, "thorough": {"bounds": {"steps": 2, "ops": 9, "rows": 3, "colhis": 2, "caches": 2, "cachesizes": 2, "filters": 2}}},
   {"name": "VerifH12TopN", "common": {"max_depth": 3000}, "quick": {"bounds": {"steps": 1}}, "thorough": {"bounds": {"steps": 2}}},
 ]},
 "C13": {"package": ".", "harnesses": [
   {"name": "VerifH13Mutex", "common": {"max_depth": 2000}, "quick": {"bounds": {"steps": 2, "ops": 3, "batch": 2}}, "thorough": {"bounds": {"steps": 2, "ops": 3, "batch": 3}}},
   {"name": "VerifH13Bool", "common": {"max_depth": 2000}, "quick": {"bounds": {"steps": 2, "ops": 3, "batch": 2}}},
   {"name": "VerifH13Rounds", "thorough_ok": True, "common": {"max_depth": 3000}, "quick": {"bounds": {"rounds": 3, "roundcols": 5}}, "thorough": {"bounds": {"rounds": 4, "roundcols": 7}}},
   {"name": "VerifH13BigBatch", "thorough_ok": True, "common": {"max_depth": 3000}, "quick": {"bounds": {"bigbatch": 16}}, "thorough": {"bounds": {"bigbatch": 24}}},
 ]},
 "C14": {"package": ".", "harnesses": [
   {"name": "VerifH14Value", "thorough_ok": True, "common": {"max_depth": 2000}, "quick": {"bounds": {"depths": 2, "cols": 1}}, "thorough": {"bounds": {"depths": 3, "cols": 2, "symbase": 1}}},
   {"name": "VerifH14Range", "common": {"max_depth": 2000}, "quick": {"bounds": {"depths": 2, "cols": 1, "ops": 7}}, "thorough": {"bounds": {"depths": 3, "cols": 2, "ops": 7, "symbase": 1}}},
   {"name": "VerifH14Aggregates", "thorough_ok": True, "common": {"max_depth": 3000}, "quick": {"bounds": {"depths": 2, "cols": 2}}, "thorough": {"bounds": {"depths": 3, "cols": 2, "symbase": 1}}},
   {"name": "VerifH14Import", "thorough_ok": True, "common": {"max_depth": 3000}, "quick": {"bounds": {"batches": 2}}, "thorough": {"bounds": {"batches": 3}}},
 ]},
 "C15": {"package": ".", "harnesses": [
   {"name": "VerifH15Algebra", "common": {"max_depth": 3000}, "quick": {"bounds": {"bits": 3, "trees": 9, "colhis": 1}}, "thorough": {"bounds": {"bits": 4, "trees": 9, "colhis": 2}}},
   {"name": "VerifH15SetNot", "thorough_ok": True, "common": {"max_depth": 3000}, "quick": {"bounds": {"steps": 2}}, "thorough": {"bounds": {"steps": 3}}},
   {"name": "VerifH15Shards", "thorough_ok": True, "common": {"max_depth": 3000}, "quick": {"bounds": {"bits": 3, "trees": 4}}, "thorough": {"bounds": {"bits": 4, "trees": 4}}},
   {"name": "VerifH15ShiftFullArray", "package": "./roaring", "common": {"max_depth": 3000, "max_steps": 50000000}, "quick": {"bounds": {"arraylen": 4096}}},
   {"name": "VerifH15Shift", "package": "./roaring", "common": {"max_depth": 3000}, "quick": {"bounds": {"kinds": 1, "typs": 3, "array": 2, "runs": 1, "words": 1, "near": 1, "wordmask6": 1}}, "thorough": {"bounds": {"kinds": 2, "typs": 3, "array": 3, "runs": 2, "words": 1, "near": 1}}},
 ]},
 "C16": {"package": ".", "harnesses": [
   {"name": "VerifH16Rows", "common": {"max_depth": 3000}, "quick": {"bounds": {"steps": 2, "ops": 9, "rows": 2, "colhis": 1, "caches": 1}}, "thorough": {"bounds": {"steps": 2, "ops": 9, "rows": 4, "colhis": 2, "caches": 3}}},
   {"name": "VerifH16GroupBy", "thorough_ok": True, "common": {"max_depth": 3000}, "quick": {"bounds": {"patterns": 4}}, "thorough": {"bounds": {"patterns": 6}}},
   {"name": "VerifH16RowsNoCache", "common": {"max_depth": 3000}, "quick": {"bounds": {"steps": 2, "ops": 9, "rows": 2, "colhis": 1}}, "thorough": {"bounds": {"steps": 2, "ops": 9, "rows": 4, "colhis": 2}}},
   {"name": "VerifH16RowsTime", "thorough_ok": True, "common": {"max_depth": 3000}, "quick": {"bounds": {"quanta": 2}}, "thorough": {"bounds": {"quanta": 4}}},
 ]},
 "C17": {"package": ".", "harnesses": [
   {"name": "VerifH17MinReducer", "thorough_ok": True, "quick": {"bounds": {"partials": 3}}, "thorough": {"bounds": {"partials": 4}}},
   {"name": "VerifH17MaxReducer", "thorough_ok": True, "quick": {"bounds": {"partials": 3}}, "thorough": {"bounds": {"partials": 4}}},
   {"name": "VerifH17SumReducer", "quick": {"bounds": {"partials": 3}}},
 ]},
 "C18": {"package": ".", "harnesses": [
   {"name": "VerifH18HourView", "common": {"max_depth": 3000}, "quick": {"bounds": {"days": 2}}, "thorough": {"bounds": {"days": 3}}},
   {"name": "VerifH18SetBitViews", "thorough_ok": True, "common": {"max_depth": 4000, "allow_go": True}, "quick": {"bounds": {"quanta": 4, "writes": 2, "instants": 3}}, "thorough": {"bounds": {"quanta": 10, "writes": 2, "instants": 5}}},
 ]},
 "C19": {"package": ".", "harnesses": [
   {"name": "VerifH19ClearBit", "thorough_ok": True, "common": {"max_depth": 3000}, "quick": {"bounds": {"quanta": 10, "instants": 3}}, "thorough": {"bounds": {"quanta": 10, "instants": 5}}},
 ]},
 "C20": {"package": ".", "harnesses": [
   {"name": "VerifH20Owners", "thorough_ok": True, "common": {"max_depth": 2000}, "quick": {"bounds": {"nodes": 3, "replicas": 4}}, "thorough": {"bounds": {"nodes": 4, "replicas": 5}}},
   {"name": "VerifH20OwnsShard", "common": {"max_depth": 2000}, "quick": {"bounds": {"nodes": 3, "replicas": 4}}},
 ]},
 "C21": {"package": ".", "harnesses": [
   {"name": "VerifH21FragSources", "common": {"max_depth": 3000}, "quick": {"bounds": {"nodes": 1, "replicas": 2, "shards": 2}}, "thorough": {"bounds": {"nodes": 2, "replicas": 2, "shards": 3}}},
   {"name": "VerifH21Job", "thorough_ok": True, "common": {"max_depth": 3000}, "quick": {"bounds": {"nodes": 1, "replicas": 2, "shards": 2}}, "thorough": {"bounds": {"nodes": 2, "replicas": 2, "shards": 2}}},
 ]},
 "C22": {"package": ".", "harnesses": [
   {"name": "VerifH22Completions", "thorough_ok": True, "common": {"max_depth": 3000}, "quick": {"bounds": {"events": 3}}, "thorough": {"bounds": {"events": 4}}},
 ]},
 "C23": {"package": ".", "harnesses": [
   {"name": "VerifH23Gate", "common": {"max_depth": 3000}, "quick": {"bounds": {}}},
 ]},
 "C24": {"package": ".", "harnesses": [
   {"name": "VerifH24Translate", "common": {"max_depth": 3000}, "quick": {"bounds": {"keys": 3, "keylen": 1, "smalltable": 1, "batches": 2, "xxhash_values": 3}}, "thorough": {"bounds": {"keys": 4, "keylen": 1, "smalltable": 1, "batches": 2, "xxhash_values": 4}, "max_paths": 600000}},
 ]},
 "C25": {"package": ".", "harnesses": [
   {"name": "VerifH25BlockDiff", "thorough_ok": True, "common": {"max_depth": 3000}, "quick": {"bounds": {"blocks": 2}}, "thorough": {"bounds": {"blocks": 3}}},
   {"name": "VerifH25AttrCodec", "common": {"max_depth": 3000}, "quick": {"bounds": {}}},
   {"name": "VerifH25Store", "thorough_ok": True, "package": "./boltdb", "common": {"max_depth": 4000, "max_steps": 50000000}, "quick": {"bounds": {"steps": 2, "ops": 3, "keys": 1}}, "thorough": {"bounds": {"steps": 2, "ops": 3, "keys": 2}}},
   {"name": "VerifH25BulkRowAttrs", "thorough_ok": True, "common": {"max_depth": 3000}, "quick": {"bounds": {"calls": 2}}, "thorough": {"bounds": {"calls": 3}}},
 ]},
 "C26": {"package": "./pql", "harnesses": [
   {"name": "VerifH26ParseConcrete", "quick": {"bounds": {}}},
   {"name": "VerifH26StringLiteral", "common": {"max_depth": 3000}, "quick": {"bounds": {"len": 2}}, "thorough": {"bounds": {"len": 3}}},
   {"name": "VerifH26UnicodeLiteral", "common": {"max_depth": 3000}, "quick": {"bounds": {}}},
   {"name": "VerifH26Forward", "common": {"max_depth": 3000}, "quick": {"bounds": {"kinds": 4, "len": 1}}, "thorough": {"bounds": {"kinds": 4, "len": 2}}},
   {"name": "VerifH26ConditionThenArg", "common": {"max_depth": 4000}, "quick": {"bounds": {"conds": 7}}},
 ]},
 "C27": {"package": "./encoding/proto", "harnesses": [
   {"name": "VerifH27Messages", "common": {"max_depth": 3000}, "quick": {"bounds": {"strlen": 1, "slice": 1, "types": 12, "intclasses": 2}}, "thorough": {"bounds": {"strlen": 1, "slice": 2, "types": 12, "intclasses": 3}}},
   {"name": "VerifH27Garbage", "common": {"max_depth": 3000}, "quick": {"bounds": {"len": 4, "targets": 14}}, "thorough": {"bounds": {"len": 6, "targets": 14}}},
   {"name": "VerifH27Envelope", "package": ".", "common": {"max_depth": 3000}, "quick": {"bounds": {}}},
 ]},
 "C28": {"package": ".", "harnesses": [
   {"name": "VerifH28WritePaths", "thorough_ok": True, "common": {"max_depth": 3000}, "quick": {"bounds": {"bits": 2, "rows": 2, "colhis": 1, "caches": 2}}, "thorough": {"bounds": {"bits": 2, "rows": 3, "colhis": 2, "caches": 3}}},
   {"name": "VerifH28FieldPaths", "common": {"max_depth": 4000, "allow_go": True}, "quick": {"bounds": {"types": 5, "writes": 2}}, "thorough": {"bounds": {"types": 5, "writes": 3}}},
 ]},
}

package pql

// H26 / H06(PQL): the generated PEG parser executed on (partly) symbolic text.

// concrete smoke test: exercises the whole parser machinery in the engine
func VerifH26ParseConcrete() {
	q, err := ParseString(`Set(10, f=3)Row(f="ab")`)
	verifAssert(err == nil, "parse: no error")
	verifAssert(len(q.Calls) == 2, "parse: two calls")
	if len(q.Calls) == 2 {
		verifAssert(q.Calls[0].Name == "Set", "parse: first call name")
		v, ok := q.Calls[1].Args["f"].(string)
		verifAssert(ok && v == "ab", "parse: string literal value")
	}
	verifReach("parsed concrete text")
}

// H06: arbitrary query text never makes a panic escape Parse.
func VerifH06ParseArbitrary() {
	n := verifChoice("len", verifBound("len", 3)+1)
	b := verifBytes("text", n)
	_, _ = ParseString(string(b))
	verifReach("parse returned")
	verifAssert(true, "no crash")
}

// H06/H26: arbitrary bytes inside a string literal of a well-formed call.
func VerifH26StringLiteral() {
	n := verifChoice("len", verifBound("len", 2)+1)
	payload := verifBytes("payload", n)
	// the literal must not contain the closing quote, a backslash or a newline
	// (those change the token structure; covered by ParseArbitrary)
	for i := range payload {
		verifAssume(verifAnd(payload[i] != '"', verifAnd(payload[i] != '\\', payload[i] != '\n')))
		verifAssume(payload[i] < 0x80) // ASCII here; non-ASCII literals are a separate harness
	}
	text := `Row(f="` + string(payload) + `")`
	q, err := ParseString(text)
	verifReach("literal parsed")
	verifAssert(err == nil, "string literal: parses")
	if err == nil && len(q.Calls) == 1 {
		v, ok := q.Calls[0].Args["f"].(string)
		verifAssert(ok, "string literal: argument is a string")
		verifAssert(v == string(payload), "string literal: value equals the written text")
	}
}

// Non-ASCII string literal: a valid 2-byte UTF-8 sequence (symbolic) inside a
// literal, possibly followed by an ASCII byte; the parsed value must equal
// the written text (exercises rune offsets vs byte offsets in the actions).
func VerifH26UnicodeLiteral() {
	b0, b1 := verifU8("lead"), verifU8("cont")
	verifAssume(verifAnd(b0 >= 0xC2, b0 <= 0xDF))
	verifAssume(verifAnd(b1 >= 0x80, b1 <= 0xBF))
	tail := verifU8("tail")
	verifAssume(verifAnd(tail >= 'a', tail <= 'z'))
	payload := string([]byte{b0, b1, tail})
	text := `Row(f="` + payload + `")`
	q, err := ParseString(text)
	verifReach("unicode literal parsed")
	verifAssert(err == nil, "unicode literal: parses")
	if err == nil && len(q.Calls) == 1 {
		v, ok := q.Calls[0].Args["f"].(string)
		verifAssert(ok, "unicode literal: argument is a string")
		verifAssert(v == payload, "unicode literal: value equals the written text")
	}
}

// H26a: a call as the executor forwards it (Call.String()) re-parses to the
// same call: name, keys, values and dynamic types.
func VerifH26Forward() {
	var arg interface{}
	kind := verifChoice("kind", verifBound("kinds", 4))
	var sval string
	var ival int64
	var uval uint64
	var bval bool
	switch kind {
	case 0:
		n := verifChoice("len", verifBound("len", 2)+1)
		b := verifBytes("str", n)
		for i := range b {
			verifAssume(b[i] < 0x80) // ASCII (multi-byte strings: VerifH26UnicodeLiteral)
		}
		sval = string(b)
		arg = sval
	case 1:
		ival = int64(int8(verifU8("int")))
		arg = ival
	case 2:
		uval = uint64(verifU8("uint"))
		arg = uval
	default:
		bval = verifBool("bool")
		arg = bval
	}
	c := &Call{Name: "Row", Args: map[string]interface{}{"f": arg}}
	text := c.String()
	q, err := ParseString(text)
	verifReach("forwarded text re-parsed")
	verifAssert(err == nil, "forwarded call re-parses")
	if err != nil || len(q.Calls) != 1 {
		verifAssert(err != nil, "forwarded call: exactly one call")
		return
	}
	got := q.Calls[0]
	verifAssert(got.Name == "Row" && len(got.Args) == 1, "forwarded call: name and argument count")
	switch kind {
	case 0:
		v, ok := got.Args["f"].(string)
		verifAssert(ok && v == sval, "forwarded call: string argument keeps its value")
	case 1:
		v, ok := got.Args["f"].(int64)
		verifAssert(ok && v == ival, "forwarded call: int64 argument keeps its value")
	case 2:
		v, ok := got.Args["f"].(int64)
		verifAssert(ok && uint64(v) == uval, "forwarded call: uint64 argument keeps its value (re-parsed as an integer)")
	default:
		v, ok := got.Args["f"].(bool)
		verifAssert(ok && v == bval, "forwarded call: bool argument keeps its value")
	}
}

// H06(PQL): numeric literals far outside the machine ranges (a long run of
// concrete digits with symbolic sign, first digit, optional fraction and
// position in the call) are rejected with an error or parsed; no panic escapes
// Parse. The digit run is concrete - its length (bound "digits") is what
// pushes the literal out of the int64 / float64 ranges.
func VerifH06HugeNumbers() {
	n := verifBound("digits", 400)
	d := verifU8("digit")
	verifAssume(verifAnd(d >= '1', d <= '9'))
	lit := make([]byte, 0, n+4)
	if verifChoice("sign", 2) == 1 {
		lit = append(lit, '-')
	}
	lit = append(lit, d)
	for i := 0; i < n; i++ {
		lit = append(lit, '0')
	}
	if verifChoice("fraction", 2) == 1 {
		f := verifU8("fracdigit")
		verifAssume(verifAnd(f >= '0', f <= '9'))
		lit = append(lit, '.', f)
	}
	var text string
	switch verifChoice("position", 4) {
	case 0:
		text = "Row(f=" + string(lit) + ")"
	case 1:
		text = "Row(f > " + string(lit) + ")"
	case 2:
		text = "Set(" + string(lit) + ", f=1)"
	default:
		text = "SetRowAttrs(f, 1, x=" + string(lit) + ")"
	}
	_, err := ParseString(text)
	verifReach("huge literal handled")
	verifAssert(err != nil || n < 18, "a literal outside the numeric ranges is rejected with an error")
}

// H26c: a condition argument followed by plain arguments in the same call:
// the following arguments keep their own (=) meaning, at parse time and after
// the call has been rendered with String() and parsed again (forwarding).
func VerifH26ConditionThenArg() {
	d := verifU8("digit")
	verifAssume(verifAnd(d >= '0', d <= '9'))
	conds := []string{"a >< [1,5]", "a == 3", "a != 3", "a < 3", "a >= 3", "1 <= a <= 5", "1 < a < 5"}
	ops := []Token{BETWEEN, EQ, NEQ, LT, GTE, BETWEEN, BETWEEN}
	k := verifChoice("cond", verifBound("conds", 7))
	text := "Row(" + conds[k] + ", m=" + string([]byte{d}) + ", n='x')"
	q, err := ParseString(text)
	verifReach("condition call parsed")
	verifAssert(err == nil, "condition followed by arguments: parses")
	if err != nil || len(q.Calls) != 1 {
		return
	}
	check := func(c *Call, label string) {
		cond, ok := c.Args["a"].(*Condition)
		verifAssert(ok && cond.Op == ops[k], label+": the condition keeps its operator")
		m, ok := c.Args["m"].(int64)
		verifAssert(ok && m == int64(d-'0'), label+": a plain argument after a condition is a plain integer")
		n, ok := c.Args["n"].(string)
		verifAssert(ok && n == "x", label+": a plain argument after a condition is a plain string")
	}
	check(q.Calls[0], "parse")
	q2, err := ParseString(q.Calls[0].String())
	verifAssert(err == nil, "the rendered call parses again")
	if err == nil && len(q2.Calls) == 1 {
		check(q2.Calls[0], "forwarded")
	}
}

package pilosa

// H16: Rows / MinRow / MaxRow on a fragment after a write history.

var verifAllRows = []uint64{0, 1, 2, 100}

func verifRowsContain(rows []uint64, r uint64) bool {
	x := false
	for i := range rows {
		x = verifOr(x, rows[i] == r)
	}
	return x
}

func VerifH16Rows() { verifRowsHistory(verifCacheType()) }

// the same on a fragment without a count cache (time, bool and cache-less
// fields): the per-row bookkeeping of the write paths differs there
func VerifH16RowsNoCache() { verifRowsHistory(CacheTypeNone) }

func verifRowsHistory(cacheType string) {
	f := verifNewFragment(cacheType, 2)
	s := &verifBits{}
	steps := verifBound("steps", 2)
	for i := 0; i < steps; i++ {
		verifFragmentStep(f, s, verifBound("ops", 9))
	}
	nrows := verifBound("rows", 2)
	verifReach("rows history done")

	got := f.rows(0)
	asc := true
	for i := 1; i < len(got); i++ {
		asc = verifAnd(asc, got[i-1] < got[i])
	}
	verifAssert(asc, "rows(): strictly ascending, distinct")
	for _, r := range verifAllRows[:nrows] {
		verifAssert(verifRowsContain(got, r) == (s.rowCount(r) > 0), "rows(): a row is listed iff it has at least one bit")
	}

	c := verifCol()
	gotc := f.rows(0, filterColumn(c))
	for _, r := range verifAllRows[:nrows] {
		verifAssert(verifRowsContain(gotc, r) == s.has(r, c), "rows(column): a row is listed iff the column is set in it")
	}

	// MinRow / MaxRow without filter
	any := false
	var lo, hi uint64
	for _, r := range verifAllRows[:nrows] {
		has := s.rowCount(r) > 0
		lo = verifIteU64(verifAnd(has, !any), r, lo)
		hi = verifIteU64(has, r, hi)
		any = verifOr(any, has)
	}
	mn, mnc := f.minRow(nil)
	mx, mxc := f.maxRow(nil)
	verifAssert(verifImplies(any, verifAnd(mn == lo, mnc > 0)), "minRow: smallest row with a bit")
	verifAssert(verifImplies(any, verifAnd(mx == hi, mxc > 0)), "maxRow: largest row with a bit")
	verifAssert(verifImplies(!any, verifAnd(mnc == 0, mxc == 0)), "minRow/maxRow: empty fragment")

	// with a filter row holding one column
	filter := NewRow(c)
	fany := false
	var flo, fhi uint64
	for _, r := range verifAllRows[:nrows] {
		has := s.has(r, c)
		flo = verifIteU64(verifAnd(has, !fany), r, flo)
		fhi = verifIteU64(has, r, fhi)
		fany = verifOr(fany, has)
	}
	fmn, fmnc := f.minRow(filter)
	fmx, fmxc := f.maxRow(filter)
	verifAssert(verifImplies(fany, verifAnd(fmn == flo, fmnc == 1)), "minRow(filter): smallest row intersecting the filter")
	verifAssert(verifImplies(fany, verifAnd(fmx == fhi, fmxc == 1)), "maxRow(filter): largest row intersecting the filter")
	verifAssert(verifImplies(!fany, verifAnd(fmnc == 0, fmxc == 0)), "minRow/maxRow(filter): no row intersects")
}

package pilosa

import (
	"bufio"
	"bytes"
	"io"
	"os"
)

// H24: key translation on a directly constructed TranslateFile whose log
// writer and mapped data share one in-memory file. hashKey (xxhash) is an
// uninterpreted function, so every collision / probe-distance pattern of the
// robin-hood table is explored.

type verifMemFile struct {
	buf []byte
	n   int
}

func (m *verifMemFile) Write(p []byte) (int, error) {
	copy(m.buf[m.n:], p)
	m.n += len(p)
	return len(p), nil
}

func verifNewTranslateFile(mem *verifMemFile, small bool) *TranslateFile {
	file := new(os.File)
	if verifNative() {
		// the native replay needs a real handle for file.Sync()
		file, _ = os.CreateTemp("", "verif-translate")
		defer os.Remove(file.Name())
	}
	s := &TranslateFile{
		data: mem.buf, file: file, w: bufio.NewWriter(mem),
		cols: make(map[string]*index), rows: make(map[fieldKey]*index),
		writeNotify: make(chan struct{}), closing: make(chan struct{}),
	}
	if small {
		// a 4-slot table (threshold 3) so that growth happens within bounds
		idx := newIndex(s.data)
		idx.alloc(4)
		s.cols["i"] = idx
	}
	return s
}

// verifKey: a key of 0-1 symbolic bytes (quick) / 0-2 (bound "keylen").
func verifKey() string {
	n := verifChoice("keylen", verifBound("keylen", 1)+1)
	b := make([]byte, n)
	for i := range b {
		b[i] = verifU8("keybyte")
	}
	return string(b)
}

func VerifH24Translate() {
	mem := &verifMemFile{buf: make([]byte, 192)}
	s := verifNewTranslateFile(mem, verifBound("smalltable", 1) != 0)
	nk := 1 + verifChoice("nkeys", verifBound("keys", 3))
	keys := make([]string, nk)
	for i := range keys {
		keys[i] = verifKey()
	}
	// first batch: all but the last key; second batch: all keys (repeats)
	first := keys[:nk-1]
	var ids1 []uint64
	var err error
	if len(first) > 0 && verifBound("batches", 2) > 1 && verifChoice("twobatches", 2) == 1 {
		ids1, err = s.TranslateColumnsToUint64("i", first)
		verifAssert(err == nil, "translate batch 1: no error")
	}
	ids, err := s.TranslateColumnsToUint64("i", keys)
	verifAssert(err == nil, "translate batch 2: no error")
	verifReach("translated")
	for i := range ids1 {
		verifAssert(ids[i] == ids1[i], "an assigned ID never changes")
	}
	for i := range keys {
		verifAssert(ids[i] > 0, "IDs are positive")
		for j := i + 1; j < len(keys); j++ {
			verifAssert((keys[i] == keys[j]) == (ids[i] == ids[j]), "same key same ID, distinct keys distinct IDs")
		}
		k, err := s.TranslateColumnToString("i", ids[i])
		verifAssert(err == nil, "reverse translation: no error")
		verifAssert(k == keys[i], "reverse translation returns the key")
	}

	// restart / replica: replay the produced log into a second store
	s2 := verifNewTranslateFile(&verifMemFile{buf: mem.buf, n: mem.n}, false)
	r := bytes.NewReader(s2.data[:mem.n])
	for {
		offset := s2.n
		var entry LogEntry
		n, err := entry.ReadFrom(r)
		if err == io.EOF {
			break
		}
		verifAssert(err == nil, "replay: entry decodes")
		if err != nil {
			break
		}
		s2.n += n
		verifAssert(s2.applyEntry(&entry, offset) == nil, "replay: entry applies")
	}
	{
		i := verifChoice("replay.probe", len(keys))
		got, err := s2.TranslateColumnsToUint64("i", []string{keys[i]})
		verifAssert(err == nil, "replayed store: no error")
		verifAssert(len(got) == 1 && got[0] == ids[i], "replayed store has the identical mapping")
	}
	// a new key on the restarted store gets a fresh ID
	nk2 := verifKey()
	fresh := true
	for i := range keys {
		fresh = verifAnd(fresh, nk2 != keys[i])
	}
	verifAssume(fresh)
	got, err := s2.TranslateColumnsToUint64("i", []string{nk2})
	verifAssert(err == nil, "new key after restart: no error")
	for i := range keys {
		verifAssert(got[0] != ids[i], "new key after restart gets an unused ID")
	}
}

package pilosa

import "github.com/pilosa/pilosa/stats"

// H19: Field.ClearBit removes the bit from the standard view and from every
// time view, whatever timestamps the bit was set with and whatever sibling
// views other columns created.

var verifInstants = [][4]string{
	{"2018", "12", "31", "23"},
	{"2019", "01", "01", "00"},
	{"2019", "01", "01", "01"},
	{"2019", "01", "02", "00"},
	{"2019", "02", "01", "00"},
}

var verifQuanta = []string{"YMDH", "YMD", "YM", "Y", "MDH", "DH", "H", "MD", "D", "M"}

func verifViewNames(inst [4]string, q string) []string {
	var out []string
	for _, u := range q {
		switch u {
		case 'Y':
			out = append(out, viewStandard+"_"+inst[0])
		case 'M':
			out = append(out, viewStandard+"_"+inst[0]+inst[1])
		case 'D':
			out = append(out, viewStandard+"_"+inst[0]+inst[1]+inst[2])
		case 'H':
			out = append(out, viewStandard+"_"+inst[0]+inst[1]+inst[2]+inst[3])
		}
	}
	return out
}

func verifTimeView(fld *Field, name string) *view {
	if v, ok := fld.viewMap[name]; ok {
		return v
	}
	frag := verifNewFragment(CacheTypeNone, 0)
	frag.view = name
	v := &view{index: "i", field: "f", name: name, fieldType: FieldTypeTime, cacheType: CacheTypeNone,
		fragments: map[uint64]*fragment{0: frag}, stats: stats.NopStatsClient}
	fld.viewMap[name] = v
	return v
}

func VerifH19ClearBit() {
	q := verifQuanta[verifChoice("quantum", verifBound("quanta", 4))]
	fld := &Field{index: "i", name: "f", viewMap: map[string]*view{}, Stats: stats.NopStatsClient,
		options: FieldOptions{Type: FieldTypeTime, TimeQuantum: TimeQuantum(q)}}
	std := verifTimeView(fld, viewStandard)
	row := uint64(1)
	col := uint64(verifU16("col"))
	other := uint64(verifU16("other"))
	verifAssume(other != col)
	ninst := verifBound("instants", 3)
	any := false
	for i := 0; i < ninst; i++ {
		// 0: this instant is not used, 1: only another column has it, 2: the bit was set with it
		mode := verifChoice("mode", 3)
		if mode == 0 {
			continue
		}
		for _, name := range verifViewNames(verifInstants[i], q) {
			v := verifTimeView(fld, name)
			if mode == 2 {
				_, _ = v.fragments[0].setBit(row, col)
			} else {
				_, _ = v.fragments[0].setBit(row, other)
			}
		}
		if mode == 2 {
			any = true
			_, _ = std.fragments[0].setBit(row, col)
		} else {
			_, _ = std.fragments[0].setBit(row, other)
		}
	}
	if !any && verifChoice("untimed", 2) == 1 {
		_, _ = std.fragments[0].setBit(row, col) // set without a timestamp
	}
	// the standard view may lack the bit although time views hold it: a
	// roaring import that names only time views, or an import with clear
	// (which touches the standard view only), leaves that state
	if any && verifChoice("standardlacks", 2) == 1 {
		_, _ = std.fragments[0].clearBit(row, col)
	}
	_, err := fld.ClearBit(row, col)
	verifReach("ClearBit returned")
	verifAssert(err == nil, "ClearBit: no error")
	for name, v := range fld.viewMap {
		b, _ := v.fragments[0].bit(row, col)
		verifAssert(!b, "ClearBit: no view still holds the bit ("+name+")")
	}
}

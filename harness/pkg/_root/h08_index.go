package pilosa

import "os"

// H08b: clean restart at the index level on the in-memory file system: an
// index is opened, a field of any type is created and written through the
// real single-write calls, the index is closed and a fresh Index object opens
// the same directory (real directory walk: openFields, openViews,
// openFragments, fragment.Open). The field is there with the same options, the
// same views, the same bits and the same integer values.

func VerifH08IndexRestart() {
	dir := verifTempDir()
	defer verifCleanTemp(dir)
	idx := verifNewIndex(dir + "/i")
	idx.trackExistence = verifChoice("existence", 2) == 1
	err := idx.Open()
	verifAssert(err == nil, "index opens")
	if err != nil {
		return
	}
	verifAssert(idx.saveMeta() == nil, "index meta saved") // what Holder.createIndex does
	typ := verifChoice("type", verifBound("types", 5))
	f, err := verifPathField(idx, "a", typ)
	verifAssert(err == nil, "field created")
	if err != nil {
		return
	}
	hot := []uint64{uint64(verifU16("col")), uint64(verifU16("col"))}
	n := verifChoice("writes", verifBound("writes", 2)+1)
	nrows := 3
	if typ == 2 {
		nrows = 2
	}
	for i := 0; i < n; i++ {
		c := hot[verifChoice("colidx", 2)]
		var err error
		if typ == 4 {
			_, err = f.SetValue(c, []int64{5, 0, -3}[verifChoice("value", 3)])
		} else {
			var ts *[1]int
			_ = ts
			r := uint64(verifChoice("row", nrows))
			if k := 0; typ == 3 {
				k = verifChoice("instant", 3)
				if k > 0 {
					t := verifInstantTimes[k]
					_, err = f.SetBit(r, c, &t)
				} else {
					_, err = f.SetBit(r, c, nil)
				}
			} else {
				_, err = f.SetBit(r, c, nil)
			}
		}
		verifAssert(err == nil, "write: no error")
	}
	before := f.Options()
	// snapshot of what a client can read
	r := uint64(verifChoice("probe.row", nrows))
	c := hot[verifChoice("probe.col", 2)]
	type viewBit struct {
		name string
		bit  bool
	}
	var bits []viewBit
	for name, v := range f.viewMap {
		b := false
		if frag := v.Fragment(0); frag != nil {
			b, _ = frag.bit(r, c)
		}
		bits = append(bits, viewBit{name, b})
	}
	var val int64
	var valOK bool
	if typ == 4 {
		val, valOK, _ = f.Value(c)
	}
	verifAssert(idx.Close() == nil, "index closes")

	// restart
	idx2 := verifNewIndex(dir + "/i")
	err = idx2.Open()
	verifReach("index reopened")
	verifAssert(err == nil, "index reopens")
	if err != nil {
		return
	}
	verifAssert(idx2.trackExistence == idx.trackExistence, "existence tracking unchanged by a restart")
	verifAssert((idx2.existenceField() != nil) == idx.trackExistence, "existence field present iff tracked")
	f2 := idx2.Field("a")
	verifAssert(f2 != nil, "the field is there after a restart")
	if f2 == nil {
		return
	}
	verifAssert(verifVisibleOptionsEqual(before, f2.Options()), "field options unchanged by a restart")
	for _, vb := range bits {
		v2 := f2.view(vb.name)
		verifAssert(v2 != nil, "every view is there after a restart ("+vb.name+")")
		if v2 == nil {
			continue
		}
		b := false
		if frag := v2.Fragment(0); frag != nil {
			b, _ = frag.bit(r, c)
		}
		verifAssert(b == vb.bit, "every view holds the same bits after a restart ("+vb.name+")")
	}
	verifAssert(len(f2.viewMap) == len(bits), "no views appear or disappear across a restart")
	if typ == 4 {
		v2, ok2, err := f2.Value(c)
		verifAssert(err == nil, "Value after restart: no error")
		verifAssert(ok2 == valOK && (!ok2 || v2 == val), "integer values unchanged by a restart")
	}
	_ = idx2.Close()
	_ = os.RemoveAll(dir)
}

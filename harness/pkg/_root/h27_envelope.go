package pilosa

// H27b: the typed envelope of internal messages. Every message kind the
// server handles (receiveMessage) and the serializer encodes has a type byte
// (MarshalInternalMessage -> getMessageType) and the type byte maps back to a
// message of the same kind (ClusterMessage -> getMessage).

func verifSameKind(a, b Message) bool {
	switch a.(type) {
	case *CreateShardMessage:
		_, ok := b.(*CreateShardMessage)
		return ok
	case *CreateIndexMessage:
		_, ok := b.(*CreateIndexMessage)
		return ok
	case *DeleteIndexMessage:
		_, ok := b.(*DeleteIndexMessage)
		return ok
	case *CreateFieldMessage:
		_, ok := b.(*CreateFieldMessage)
		return ok
	case *DeleteFieldMessage:
		_, ok := b.(*DeleteFieldMessage)
		return ok
	case *DeleteAvailableShardMessage:
		_, ok := b.(*DeleteAvailableShardMessage)
		return ok
	case *CreateViewMessage:
		_, ok := b.(*CreateViewMessage)
		return ok
	case *DeleteViewMessage:
		_, ok := b.(*DeleteViewMessage)
		return ok
	case *ClusterStatus:
		_, ok := b.(*ClusterStatus)
		return ok
	case *ResizeInstruction:
		_, ok := b.(*ResizeInstruction)
		return ok
	case *ResizeInstructionComplete:
		_, ok := b.(*ResizeInstructionComplete)
		return ok
	case *SetCoordinatorMessage:
		_, ok := b.(*SetCoordinatorMessage)
		return ok
	case *UpdateCoordinatorMessage:
		_, ok := b.(*UpdateCoordinatorMessage)
		return ok
	case *NodeStateMessage:
		_, ok := b.(*NodeStateMessage)
		return ok
	case *RecalculateCaches:
		_, ok := b.(*RecalculateCaches)
		return ok
	case *NodeEvent:
		_, ok := b.(*NodeEvent)
		return ok
	case *NodeStatus:
		_, ok := b.(*NodeStatus)
		return ok
	}
	return false
}

func VerifH27Envelope() {
	msgs := []Message{
		&CreateShardMessage{}, &CreateIndexMessage{}, &DeleteIndexMessage{}, &CreateFieldMessage{}, &DeleteFieldMessage{},
		&DeleteAvailableShardMessage{}, &CreateViewMessage{}, &DeleteViewMessage{}, &ClusterStatus{}, &ResizeInstruction{},
		&ResizeInstructionComplete{}, &SetCoordinatorMessage{}, &UpdateCoordinatorMessage{}, &NodeStateMessage{},
		&RecalculateCaches{}, &NodeEvent{}, &NodeStatus{},
	}
	m := msgs[verifChoice("kind", len(msgs))]
	typ := getMessageType(m) // panics for a kind without a type byte
	back := getMessage(typ)
	verifReach("envelope type resolved")
	verifAssert(verifSameKind(m, back), "the type byte of a message maps back to the same kind")
}

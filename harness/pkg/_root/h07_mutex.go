package pilosa

// H07b: the derived per-row state of a mutex fragment (row cache, ranked
// cache counts) stays equal to storage when writes move a column from one
// row to another: the vacated row is touched only implicitly.

func VerifH07MutexCaches() {
	f := verifNewFragment(CacheTypeRanked, 4)
	f.mutexVector = newRowsVector(f)
	nrows := uint64(verifBound("rows", 2))
	hot := []uint64{uint64(verifU16("col")), uint64(verifU16("col"))}
	col := func() uint64 { return hot[verifChoice("colidx", 2)] }
	row := func() uint64 { return uint64(verifChoice("rowidx", int(nrows))) }
	s := &verifMutexSpec{}
	steps := verifBound("steps", 3)
	for i := 0; i < steps; i++ {
		switch verifChoice("op", verifBound("ops", 4)) {
		case 0:
			c, r := col(), row()
			s.write(c, r)
			_, err := f.setBit(r, c)
			verifAssert(err == nil, "setBit: no error")
		case 1:
			n := 1 + verifChoice("batch", verifBound("batch", 2))
			rs := make([]uint64, n)
			cs := make([]uint64, n)
			for k := 0; k < n; k++ {
				cs[k], rs[k] = col(), row()
				s.write(cs[k], rs[k])
			}
			err := f.bulkImport(rs, cs, &ImportOptions{})
			verifAssert(err == nil, "bulkImport: no error")
		case 2:
			// a read mid-history fills the row cache
			r, c := row(), col()
			verifAssert(verifRowHas(f.row(r), c) == s.has(c, r), "row(): membership mid-history")
		case 3:
			c, r := col(), row()
			s.clear(c, r)
			_, err := f.clearBit(r, c)
			verifAssert(err == nil, "clearBit: no error")
		}
	}
	verifReach("mutex history done")
	r, c := row(), col()
	rw := f.row(r)
	verifAssert(verifRowHas(rw, c) == s.has(c, r), "row(): membership after history")
	var want uint64
	for k := range hot {
		if k == 1 && hot[1] == hot[0] {
			continue
		}
		want += verifIteU64(s.has(hot[k], r), 1, 0)
	}
	verifAssert(rw.Count() == want, "row().Count agrees with history")
	verifAssert(f.cache.Get(r) == want, "ranked cache count agrees with history")
}

package pilosa

import "os"

// H05b: fragment level. A file-backed integer fragment with a small MaxOpN, so
// that value imports take the bulk path (op log detached, forced snapshot) and
// the op counter triggers snapshots; after any history of value writes the
// file decodes (fresh fragment, real Open) to the in-memory state.

func VerifH05FragmentFile() {
	dir := verifTempDir()
	defer verifCleanTemp(dir)
	_ = os.MkdirAll(dir, 0777)
	hot := []uint64{uint64(verifU16("col")), uint64(verifU16("col"))}
	verifAssume(hot[0] != hot[1])
	depth := uint(2)
	f := verifFileFragment(dir + "/0")
	f.MaxOpN = verifBound("maxopn", 4)
	err := f.Open()
	verifAssert(err == nil, "fragment opens")
	if err != nil {
		return
	}
	exists := []bool{false, false}
	vals := []int64{0, 0}
	value := func() int64 { return []int64{3, 0, -1}[verifChoice("value", verifBound("values", 3))] }
	steps := verifBound("steps", 3)
	for i := 0; i < steps; i++ {
		switch verifChoice("op", verifBound("ops", 2)) {
		case 0:
			// both columns in one batch: the bulk path with MaxOpN = 4
			v0, v1 := value(), value()
			err := f.importValue([]uint64{hot[0], hot[1]}, []int64{v0, v1}, depth, false)
			verifAssert(err == nil, "importValue: no error")
			exists[0], exists[1], vals[0], vals[1] = true, true, v0, v1
		case 1:
			k, v := verifChoice("colidx", 2), value()
			_, err := f.setValue(hot[k], depth, v)
			verifAssert(err == nil, "setValue: no error")
			exists[k], vals[k] = true, v
		}
	}
	verifReach("value history done")
	verifAssert(f.Close() == nil, "fragment closes")
	g := verifFileFragment(dir + "/0")
	err = g.Open()
	verifAssert(err == nil, "fragment reopens")
	if err != nil {
		return
	}
	k := verifChoice("probe", 2)
	v, ok, err := g.value(hot[k], depth)
	verifAssert(err == nil, "value: no error")
	verifAssert(ok == exists[k], "reopened fragment: existence agrees with the acknowledged writes")
	verifAssert(!ok || v == vals[k], "reopened fragment: reads the last acknowledged value")
	_ = g.Close()
}

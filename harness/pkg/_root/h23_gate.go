package pilosa

import (
	"bytes"
	"context"

	"github.com/pkg/errors"
)

// H23: the cluster-state gate. Every gated API entry point is called on a
// "poisoned" API (no holder, no server, no executor): touching data panics
// with a nil dereference, which the harness observes as "admitted".

type verifAPICall struct {
	name  string
	class int // 0: served in every state; 1: shard transfer / abort, served only while RESIZING; 2: NORMAL/DEGRADED only
	call  func(api *API) error
}

var verifAPICalls = []verifAPICall{
	{"ClusterMessage", 0, func(api *API) error { return api.ClusterMessage(context.Background(), bytes.NewReader([]byte{0})) }},
	{"SetCoordinator", 0, func(api *API) error { _, _, err := api.SetCoordinator(context.Background(), "x"); return err }},
	{"FragmentData", 1, func(api *API) error { _, err := api.FragmentData(context.Background(), "i", "f", "standard", 0); return err }},
	{"ResizeAbort", 1, func(api *API) error { return api.ResizeAbort() }},
	{"Query", 2, func(api *API) error { _, err := api.Query(context.Background(), &QueryRequest{Index: "i", Query: "Row(f=1)"}); return err }},
	{"CreateIndex", 2, func(api *API) error { _, err := api.CreateIndex(context.Background(), "i", IndexOptions{}); return err }},
	{"Index", 2, func(api *API) error { _, err := api.Index(context.Background(), "i"); return err }},
	{"DeleteIndex", 2, func(api *API) error { return api.DeleteIndex(context.Background(), "i") }},
	{"CreateField", 2, func(api *API) error { _, err := api.CreateField(context.Background(), "i", "f"); return err }},
	{"Field", 2, func(api *API) error { _, err := api.Field(context.Background(), "i", "f"); return err }},
	{"ImportRoaring", 2, func(api *API) error {
		return api.ImportRoaring(context.Background(), "i", "f", 0, false, &ImportRoaringRequest{})
	}},
	{"DeleteField", 2, func(api *API) error { return api.DeleteField(context.Background(), "i", "f") }},
	{"DeleteAvailableShard", 2, func(api *API) error { return api.DeleteAvailableShard(context.Background(), "i", "f", 0) }},
	{"ExportCSV", 2, func(api *API) error { return api.ExportCSV(context.Background(), "i", "f", 0, &bytes.Buffer{}) }},
	{"ShardNodes", 2, func(api *API) error { _, err := api.ShardNodes(context.Background(), "i", 0); return err }},
	{"FragmentBlockData", 2, func(api *API) error { _, err := api.FragmentBlockData(context.Background(), bytes.NewReader(nil)); return err }},
	{"FragmentBlocks", 2, func(api *API) error { _, err := api.FragmentBlocks(context.Background(), "i", "f", "standard", 0); return err }},
	{"RecalculateCaches", 2, func(api *API) error { return api.RecalculateCaches(context.Background()) }},
	{"ApplySchema", 2, func(api *API) error { return api.ApplySchema(context.Background(), &Schema{}, false) }},
	{"ApplySchema(remote)", 2, func(api *API) error { return api.ApplySchema(context.Background(), &Schema{}, true) }},
	{"ImportRoaring(remote)", 2, func(api *API) error {
		return api.ImportRoaring(context.Background(), "i", "f", 0, true, &ImportRoaringRequest{})
	}},
	{"Views", 2, func(api *API) error { _, err := api.Views(context.Background(), "i", "f"); return err }},
	{"DeleteView", 2, func(api *API) error { return api.DeleteView(context.Background(), "i", "f", "standard") }},
	{"IndexAttrDiff", 2, func(api *API) error { _, err := api.IndexAttrDiff(context.Background(), "i", nil); return err }},
	{"FieldAttrDiff", 2, func(api *API) error { _, err := api.FieldAttrDiff(context.Background(), "i", "f", nil); return err }},
	{"Import", 2, func(api *API) error { return api.Import(context.Background(), &ImportRequest{Index: "i", Field: "f"}) }},
	{"ImportValue", 2, func(api *API) error { return api.ImportValue(context.Background(), &ImportValueRequest{Index: "i", Field: "f"}) }},
	{"RemoveNode", 2, func(api *API) error { _, err := api.RemoveNode("x"); return err }},
}

// verifGateOutcome runs the call and reports whether it was refused by the
// gate; a panic (poisoned internals reached) or any other outcome counts as
// admitted.
func verifGateOutcome(api *API, c verifAPICall) (refused bool) {
	defer func() {
		if r := recover(); r != nil {
			refused = false
		}
	}()
	err := c.call(api)
	if err == nil {
		return false
	}
	_, refused = errors.Cause(err).(apiMethodNotAllowedError)
	return refused
}

func VerifH23Gate() {
	states := []string{ClusterStateStarting, ClusterStateNormal, ClusterStateDegraded, ClusterStateResizing}
	st := states[verifChoice("state", len(states))]
	k := verifChoice("method", len(verifAPICalls))
	c := verifAPICalls[k]
	api := &API{cluster: &cluster{state: st}}
	refused := verifGateOutcome(api, c)
	serving := st == ClusterStateNormal || st == ClusterStateDegraded
	var wantRefused bool
	switch c.class {
	case 0:
		wantRefused = false
	case 1:
		wantRefused = st != ClusterStateResizing
	default:
		wantRefused = !serving
	}
	verifReach("gate decided")
	verifAssert(refused == wantRefused, "state gate: "+c.name+" in "+st)
}

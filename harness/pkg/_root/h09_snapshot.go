package pilosa

import "os"

// H09d / H05b: a file-backed fragment (real Open, op-log appends to the file,
// real snapshot with create + write + rename + reopen) on the in-memory file
// system. (1) After any history - including snapshots triggered by row stores
// and by the op counter - a restart from the file yields the in-memory state.
// (2) A snapshot interrupted before its rename leaves a (complete or partial)
// `.snapshotting` file behind; it never affects the recovered state, also
// after later snapshots and restarts.
// The interrupted state is built from observable pieces: the data file before
// the snapshot plus (a prefix of) the bytes the snapshot produced.

func verifFileFragment(path string) *fragment {
	f := newFragment(path, "i", "f", viewStandard, 0, 0)
	f.CacheType = CacheTypeNone
	f.MaxOpN = verifBound("maxopn", 1<<30)
	return f
}

func verifFragmentHas(f *fragment, r, c uint64) bool {
	b, err := f.bit(r, c)
	verifAssert(err == nil, "bit: no error")
	return b
}

func verifFileStep(f *fragment, s *verifBits, hot []uint64, ops int) {
	r := uint64(verifChoice("row", verifBound("rows", 2)))
	c := hot[verifChoice("colidx", len(hot))]
	switch verifChoice("op", ops) {
	case 0:
		s.set(r, c)
		_, err := f.setBit(r, c)
		verifAssert(err == nil, "setBit: no error")
	case 1:
		s.clear(r, c)
		_, err := f.clearBit(r, c)
		verifAssert(err == nil, "clearBit: no error")
	case 2:
		s.clearRow(r)
		_, err := f.clearRow(r)
		verifAssert(err == nil, "clearRow: no error")
	case 3:
		s.clearRow(r)
		s.set(r, c)
		_, err := f.setRow(NewRow(c), r)
		verifAssert(err == nil, "setRow: no error")
	case 4:
		err := f.Snapshot()
		verifAssert(err == nil, "Snapshot: no error")
	}
}

// one probe position per path, used by every comparison
var verifProbeRow, verifProbeCol = -1, 0

func verifSameAsSpec(f *fragment, s *verifBits, hot []uint64, label string) {
	if verifProbeRow < 0 {
		verifProbeRow = verifChoice("probe.row", verifBound("rows", 2))
		verifProbeCol = verifChoice("probe.col", len(hot))
	}
	r, c := uint64(verifProbeRow), hot[verifProbeCol]
	verifAssert(verifFragmentHas(f, r, c) == s.has(r, c), label)
}

func VerifH09SnapshotFiles() {
	dir := verifTempDir()
	defer verifCleanTemp(dir)
	_ = os.MkdirAll(dir+"/a", 0777)
	_ = os.MkdirAll(dir+"/b", 0777)
	hot := []uint64{uint64(verifU16("col")), uint64(verifU16("col"))}
	s := &verifBits{}
	verifProbeRow = -1

	f := verifFileFragment(dir + "/a/0")
	err := f.Open()
	verifAssert(err == nil, "fragment opens on an empty directory")
	if err != nil {
		return
	}
	n1 := verifBound("steps1", 2)
	for i := 0; i < n1; i++ {
		verifFileStep(f, s, hot, verifBound("ops", 5))
	}
	// the data file as it is now, and what a snapshot started now produces
	before, _ := os.ReadFile(dir + "/a/0")
	err = f.Snapshot()
	verifAssert(err == nil, "Snapshot: no error")
	after, _ := os.ReadFile(dir + "/a/0")
	verifAssert(f.Close() == nil, "fragment closes")

	// the process was killed during that snapshot, before the rename
	_ = os.WriteFile(dir+"/b/0", before, 0666)
	switch verifChoice("leftover", 3) {
	case 1:
		_ = os.WriteFile(dir+"/b/0"+snapshotExt, after, 0666)
	case 2:
		_ = os.WriteFile(dir+"/b/0"+snapshotExt, after[:len(after)/2], 0666)
	}
	f2 := verifFileFragment(dir + "/b/0")
	err = f2.Open()
	verifReach("restarted after an interrupted snapshot")
	verifAssert(err == nil, "restart succeeds with a leftover snapshot file")
	if err != nil {
		return
	}
	verifSameAsSpec(f2, s, hot, "every acknowledged write is present after the restart")

	// life goes on: more writes, another snapshot, more writes, restart
	n2 := verifBound("steps2", 1)
	for i := 0; i < n2; i++ {
		verifFileStep(f2, s, hot, verifBound("ops", 5))
	}
	err = f2.Snapshot()
	verifAssert(err == nil, "second snapshot: no error")
	verifFileStep(f2, s, hot, 1) // a logged write after the snapshot
	verifAssert(f2.Close() == nil, "fragment closes again")
	f3 := verifFileFragment(dir + "/b/0")
	err = f3.Open()
	verifAssert(err == nil, "second restart succeeds")
	if err != nil {
		return
	}
	verifSameAsSpec(f3, s, hot, "the file decodes to the in-memory state after later snapshots")
	_ = f3.Close()
}

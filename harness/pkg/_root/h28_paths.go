package pilosa

import (
	"bytes"
	"context"
)

// H28: the same bits written into two identical fragments through different
// write paths give the same answers to every read.

func verifWriteVia(f *fragment, path int, rs, cs []uint64) {
	switch path {
	case 0:
		for i := range rs {
			_, err := f.setBit(rs[i], cs[i])
			verifAssert(err == nil, "setBit: no error")
		}
	case 1:
		err := f.bulkImport(append([]uint64{}, rs...), append([]uint64{}, cs...), &ImportOptions{})
		verifAssert(err == nil, "bulkImport: no error")
	default:
		for i := range rs {
			err := f.importRoaring(context.Background(), verifRoaringOf(rs[i], cs[i]), false)
			verifAssert(err == nil, "importRoaring: no error")
		}
	}
}

func VerifH28WritePaths() {
	ct := verifCacheType()
	a := verifNewFragment(ct, 2)
	b := verifNewFragment(ct, 2)
	n := 1 + verifChoice("nbits", verifBound("bits", 2))
	rs := make([]uint64, n)
	cs := make([]uint64, n)
	for i := range rs {
		rs[i], cs[i] = verifRow(), verifCol()
	}
	pa := verifChoice("pathA", 3)
	pb := verifChoice("pathB", 3)
	verifAssume(pa < pb) // unordered pairs of distinct paths
	verifWriteVia(a, pa, rs, cs)
	verifWriteVia(b, pb, rs, cs)
	verifReach("both fragments written")

	r, c := verifRow(), verifCol()
	ba, _ := a.bit(r, c)
	bb, _ := b.bit(r, c)
	verifAssert(ba == bb, "bit(): same answer through both paths")
	verifAssert(a.row(r).Count() == b.row(r).Count(), "row().Count: same answer through both paths")
	ra, rb := a.rows(0), b.rows(0)
	same := len(ra) == len(rb)
	if same {
		for i := range ra {
			same = verifAnd(same, ra[i] == rb[i])
		}
	}
	verifAssert(same, "rows(): same answer through both paths")
	ma, mac := a.maxRow(nil)
	mb, mbc := b.maxRow(nil)
	verifAssert(verifAnd(ma == mb, mac == mbc), "maxRow(): same answer through both paths")
	if ct != CacheTypeNone {
		ta, _ := a.top(topOptions{RowIDs: []uint64{r}})
		tb, _ := b.top(topOptions{RowIDs: []uint64{r}})
		sameTop := len(ta) == len(tb)
		if sameTop {
			for i := range ta {
				sameTop = verifAnd(sameTop, verifAnd(ta[i].ID == tb[i].ID, ta[i].Count == tb[i].Count))
			}
		}
		verifAssert(sameTop, "top(ids): same answer through both paths")
	}
	ka, kb := a.Blocks(), b.Blocks()
	sameBlocks := len(ka) == len(kb)
	if sameBlocks {
		for i := range ka {
			sameBlocks = verifAnd(sameBlocks, verifAnd(ka[i].ID == kb[i].ID, bytes.Equal(ka[i].Checksum, kb[i].Checksum)))
		}
	}
	verifAssert(sameBlocks, "Blocks(): same checksums through both paths")
}

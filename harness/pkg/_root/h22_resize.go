package pilosa

// H22 (partial): the coordinator's completion-message handler against a
// one-shot receiver. The real receiver (handleNodeAction) takes exactly one
// value from job.result and then ends the job; it is modelled by the harness:
// job.result is a 1-slot channel, the harness takes at most one value ever and
// then plugs the channel, so a later send from a handler blocks forever (which
// the engine reports as a deadlock).

func VerifH22Completions() {
	n1, n2 := &Node{ID: "n1"}, &Node{ID: "n2"}
	j := newResizeJob([]*Node{n1}, n2, resizeJobActionAdd) // tracks n1 and n2
	j.result = make(chan string, 1)
	j.setState(resizeJobStateRunning)
	c := &cluster{jobs: map[int64]*resizeJob{j.ID: j}, currentJob: j}
	received := ""
	taken := false
	msgs := 1 + verifChoice("messages", verifBound("messages", 2))
	for i := 0; i < msgs; i++ {
		m := &ResizeInstructionComplete{JobID: j.ID, Node: n1}
		switch verifChoice("sender", 3) {
		case 1:
			m.Node = n2
		case 2:
			m.Node = &Node{ID: "stranger"}
		}
		if verifChoice("unknownjob", 2) == 1 {
			m.JobID = j.ID + 1
		}
		if verifChoice("failed", 2) == 1 {
			m.Error = "boom"
		}
		_ = c.markResizeInstructionComplete(m)
		// the one-shot receiver
		if !taken && len(j.result) > 0 {
			received = <-j.result
			taken = true
			j.setState(received) // what completeCurrentJob does
			j.result <- "receiver gone" // nobody will ever receive again
		}
	}
	verifReach("messages handled")
	if received == resizeJobStateDone {
		all := true
		for _, done := range j.IDs {
			all = all && done
		}
		verifAssert(all, "job reports DONE only after every target node reported success")
		verifAssert(j.IDs["n1"] && j.IDs["n2"], "both tracked nodes reported")
	}
	verifAssert(true, "no handler panicked or blocked forever")
}

package pilosa

// H22 (partial): the coordinator's handlers for completion messages and abort
// requests against the job's one-shot receiver. The real receiver
// (handleNodeAction) takes exactly one value from job.result, completes the
// job with it (completeCurrentJob) and never reads the channel again. The
// harness plays that receiver between events: job.result is a 1-slot channel
// ("the receiver is waiting"), at most one value is ever taken, and after that
// the channel is plugged, so a later send from a handler blocks forever - the
// engine reports that as a deadlock.
//
// Events: completion messages from tracked / unknown nodes, successful or
// failed, for the running or an unknown job id, duplicated or late; abort
// requests through API.ResizeAbort.

func VerifH22Completions() {
	n1, n2 := &Node{ID: "n1"}, &Node{ID: "n2"}
	j := newResizeJob([]*Node{n1}, n2, resizeJobActionAdd) // tracks n1 and n2
	j.result = make(chan string, 1)
	j.setState(resizeJobStateRunning)
	c := &cluster{jobs: map[int64]*resizeJob{j.ID: j}, currentJob: j, Node: n1, Coordinator: "n1", state: ClusterStateResizing}
	api := &API{cluster: c}
	received := ""
	taken := false
	aborted := false
	events := 1 + verifChoice("events", verifBound("events", 2))
	for i := 0; i < events; i++ {
		if verifChoice("abort", 2) == 1 {
			if err := api.ResizeAbort(); err == nil {
				aborted = true
			}
		} else {
			m := &ResizeInstructionComplete{JobID: j.ID, Node: n1}
			switch verifChoice("sender", 3) {
			case 1:
				m.Node = n2
			case 2:
				m.Node = &Node{ID: "stranger"}
			}
			if verifChoice("unknownjob", 2) == 1 {
				m.JobID = j.ID + 1
			}
			if verifChoice("failed", 2) == 1 {
				m.Error = "boom"
			}
			_ = c.markResizeInstructionComplete(m)
		}
		// the one-shot receiver
		if !taken && len(j.result) > 0 {
			received = <-j.result
			taken = true
			// handleNodeAction: an error here is returned to listenForJoins,
			// which then does not put the cluster back to NORMAL
			cerr := c.completeCurrentJob(received)
			verifAssert(cerr == nil, "the coordinator completes the job it waited for (cluster leaves RESIZING)")
			j.result <- "receiver gone" // nobody will ever receive again
		}
	}
	verifReach("events handled")
	if received == resizeJobStateDone {
		verifAssert(j.IDs["n1"] && j.IDs["n2"], "job reports DONE only after every target node reported success")
		verifAssert(!aborted, "no DONE after an acknowledged abort")
	}
	if aborted || j.isComplete() {
		verifAssert(taken, "a job that ended released the coordinator waiting for its result")
	}
	verifAssert(true, "no handler panicked or blocked forever")
}

package pilosa

import (
	"context"

	"github.com/pilosa/pilosa/pql"
	"github.com/pilosa/pilosa/stats"
)

// H14: integer (BSI) fields: value round trip and range queries through the
// real executor entry point (executeRowBSIGroupShard) on a directly
// constructed holder -> index -> field -> view -> fragment.

type verifIntField struct {
	e    *executor
	fld  *Field
	bsig *bsiGroup
	frag *fragment
}

func verifNewIntField(min, max, base int64, depth uint) *verifIntField {
	frag := verifNewFragment(CacheTypeNone, 0)
	bsig := &bsiGroup{Name: "f", Type: bsiGroupTypeInt, Min: min, Max: max, Base: base, BitDepth: depth}
	v := &view{index: "i", field: "f", name: viewBSIGroupPrefix + "f", fieldType: FieldTypeInt, cacheType: CacheTypeNone,
		fragments: map[uint64]*fragment{0: frag}, stats: stats.NopStatsClient}
	fld := &Field{index: "i", name: "f", viewMap: map[string]*view{v.name: v}, bsiGroups: []*bsiGroup{bsig},
		Stats: stats.NopStatsClient, options: FieldOptions{Type: FieldTypeInt, Min: min, Max: max, Base: base, BitDepth: depth}}
	idx := &Index{name: "i", fields: map[string]*Field{"f": fld}, Stats: stats.NopStatsClient}
	h := &Holder{indexes: map[string]*Index{"i": idx}, Stats: stats.NopStatsClient}
	return &verifIntField{e: &executor{Holder: h}, fld: fld, bsig: bsig, frag: frag}
}

// verifIntSetup creates a field in a state reachable through the API: Base 0
// (or, with bound "bases", a small symbolic base as left by legacy metadata),
// symbolic Min <= Max, bit depth d, and up to two columns holding symbolic
// in-range values written with the real setValue.
func verifIntSetup() (*verifIntField, []uint64, []int64, []bool) {
	d := uint(1 + verifChoice("depth", verifBound("depths", 2)))
	min, max := verifI64("min"), verifI64("max")
	verifAssume(min <= max)
	var base int64
	if verifBound("symbase", 0) != 0 {
		base = int64(int8(verifU8("base")))
	}
	fi := verifNewIntField(min, max, base, d)
	lim := int64(1)<<d - 1
	ncols := 1 + verifChoice("ncols", verifBound("cols", 2))
	cols := make([]uint64, ncols)
	vals := make([]int64, ncols)
	exists := make([]bool, ncols)
	for i := range cols {
		cols[i] = uint64(verifU16("col"))
		for j := 0; j < i; j++ {
			verifAssume(cols[i] != cols[j])
		}
		exists[i] = verifChoice("exists", 2) == 0
		if exists[i] {
			vals[i] = verifI64("value")
			// in range for the field and for the current bit depth
			verifAssume(verifAnd(min <= vals[i], vals[i] <= max))
			bv := vals[i] - base
			verifAssume(verifAnd(-lim <= bv, bv <= lim))
			_, err := fi.frag.setValue(cols[i], d, bv)
			verifAssert(err == nil, "setValue: no error")
		}
	}
	return fi, cols, vals, exists
}

func VerifH14Value() {
	fi, cols, vals, exists := verifIntSetup()
	k := verifChoice("probe", len(cols))
	v, ok, err := fi.fld.Value(cols[k])
	verifReach("value read")
	verifAssert(err == nil, "Value: no error")
	verifAssert(ok == exists[k], "Value: existence")
	verifAssert(verifImplies(exists[k], v == vals[k]), "Value: reads the value written")
}

func VerifH14Range() {
	fi, cols, vals, exists := verifIntSetup()
	ops := []pql.Token{pql.EQ, pql.NEQ, pql.LT, pql.LTE, pql.GT, pql.GTE, pql.BETWEEN}
	op := ops[verifChoice("op", verifBound("ops", 7))]
	p := verifI64("predicate")
	q := verifI64("predicate2")
	var cond *pql.Condition
	if op == pql.BETWEEN {
		cond = &pql.Condition{Op: op, Value: []interface{}{p, q}}
	} else {
		cond = &pql.Condition{Op: op, Value: p}
	}
	call := &pql.Call{Name: "Row", Args: map[string]interface{}{"f": cond}}
	row, err := fi.e.executeRowBSIGroupShard(context.Background(), "i", call, 0)
	verifReach("range executed")
	verifAssert(err == nil, "range: no error")
	k := verifChoice("probe", len(cols))
	var want bool
	v := vals[k]
	switch op {
	case pql.EQ:
		want = v == p
	case pql.NEQ:
		want = v != p
	case pql.LT:
		want = v < p
	case pql.LTE:
		want = v <= p
	case pql.GT:
		want = v > p
	case pql.GTE:
		want = v >= p
	case pql.BETWEEN:
		want = verifAnd(p <= v, v <= q)
	}
	want = verifAnd(exists[k], want)
	verifAssert(verifRowHas(row, cols[k]) == want, "range: column returned iff its value satisfies the predicate")
}

package pilosa

import "bytes"

// H25 (partial): attribute block diff and attribute encoding. The boltdb
// attribute store itself (persistence, caching, block listing) is outside.

func verifAttrBlocks(tag string, n int) []AttrBlock {
	a := make([]AttrBlock, n)
	for i := range a {
		a[i] = AttrBlock{ID: uint64(verifU8(tag + ".id")), Checksum: []byte{verifU8(tag + ".sum")}}
		if i > 0 {
			verifAssume(a[i-1].ID < a[i].ID) // block lists are sorted by ID
		}
	}
	return a
}

func VerifH25BlockDiff() {
	na := verifChoice("na", verifBound("blocks", 2)+1)
	nb := verifChoice("nb", verifBound("blocks", 2)+1)
	a := verifAttrBlocks("a", na)
	b := verifAttrBlocks("b", nb)
	ids := attrBlocks(a).Diff(b)
	verifReach("diff computed")
	// oracle: a local block is listed iff the remote list has no block with
	// the same ID and the same checksum
	for i := range a {
		same := false
		for j := range b {
			same = verifOr(same, verifAnd(a[i].ID == b[j].ID, bytes.Equal(a[i].Checksum, b[j].Checksum)))
		}
		listed := false
		for _, id := range ids {
			listed = verifOr(listed, id == a[i].ID)
		}
		verifAssert(listed == !same, "Diff: a block is listed iff its checksum differs or it is absent remotely")
	}
	verifAssert(len(ids) <= len(a), "Diff: only local blocks are listed")
}

func VerifH25AttrCodec() {
	m := map[string]interface{}{}
	s := string([]byte{verifU8("strbyte")})
	i := verifI64("int")
	bval := verifBool("bool")
	m["s"] = s
	m["i"] = i
	m["b"] = bval
	m["f"] = float64(1.5)
	buf, err := EncodeAttrs(m)
	verifAssert(err == nil, "EncodeAttrs: no error")
	out, err := DecodeAttrs(buf)
	verifReach("attrs decoded")
	verifAssert(err == nil, "DecodeAttrs: no error")
	verifAssert(len(out) == 4, "attrs: key set preserved")
	os, ok1 := out["s"].(string)
	oi, ok2 := out["i"].(int64)
	ob, ok3 := out["b"].(bool)
	of, ok4 := out["f"].(float64)
	verifAssert(ok1 && ok2 && ok3 && ok4, "attrs: value types preserved")
	if ok1 && ok2 && ok3 && ok4 {
		verifAssert(os == s, "attrs: string value preserved")
		verifAssert(oi == i, "attrs: integer value preserved")
		verifAssert(ob == bval, "attrs: boolean value preserved")
		verifAssert(of == 1.5, "attrs: float value preserved")
	}
	// a clone is independent of the original
	c := cloneAttrs(out)
	c["s"] = "changed"
	v, _ := out["s"].(string)
	verifAssert(v == s, "cloneAttrs: mutating the clone leaves the source unchanged")
}

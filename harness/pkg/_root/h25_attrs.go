package pilosa

import (
	"bytes"
	"context"

	"github.com/pilosa/pilosa/pql"
	"github.com/pilosa/pilosa/stats"
)

// H25 (partial): attribute block diff and attribute encoding. The boltdb
// attribute store itself (persistence, caching, block listing) is outside.

func verifAttrBlocks(tag string, n int) []AttrBlock {
	a := make([]AttrBlock, n)
	for i := range a {
		a[i] = AttrBlock{ID: uint64(verifU8(tag + ".id")), Checksum: []byte{verifU8(tag + ".sum")}}
		if i > 0 {
			verifAssume(a[i-1].ID < a[i].ID) // block lists are sorted by ID
		}
	}
	return a
}

func VerifH25BlockDiff() {
	na := verifChoice("na", verifBound("blocks", 2)+1)
	nb := verifChoice("nb", verifBound("blocks", 2)+1)
	a := verifAttrBlocks("a", na)
	b := verifAttrBlocks("b", nb)
	ids := attrBlocks(a).Diff(b)
	verifReach("diff computed")
	// oracle: a local block is listed iff the remote list has no block with
	// the same ID and the same checksum
	for i := range a {
		same := false
		for j := range b {
			same = verifOr(same, verifAnd(a[i].ID == b[j].ID, bytes.Equal(a[i].Checksum, b[j].Checksum)))
		}
		listed := false
		for _, id := range ids {
			listed = verifOr(listed, id == a[i].ID)
		}
		verifAssert(listed == !same, "Diff: a block is listed iff its checksum differs or it is absent remotely")
	}
	verifAssert(len(ids) <= len(a), "Diff: only local blocks are listed")
}

func VerifH25AttrCodec() {
	m := map[string]interface{}{}
	s := string([]byte{verifU8("strbyte")})
	i := verifI64("int")
	bval := verifBool("bool")
	m["s"] = s
	m["i"] = i
	m["b"] = bval
	m["f"] = float64(1.5)
	buf, err := EncodeAttrs(m)
	verifAssert(err == nil, "EncodeAttrs: no error")
	out, err := DecodeAttrs(buf)
	verifReach("attrs decoded")
	verifAssert(err == nil, "DecodeAttrs: no error")
	verifAssert(len(out) == 4, "attrs: key set preserved")
	os, ok1 := out["s"].(string)
	oi, ok2 := out["i"].(int64)
	ob, ok3 := out["b"].(bool)
	of, ok4 := out["f"].(float64)
	verifAssert(ok1 && ok2 && ok3 && ok4, "attrs: value types preserved")
	if ok1 && ok2 && ok3 && ok4 {
		verifAssert(os == s, "attrs: string value preserved")
		verifAssert(oi == i, "attrs: integer value preserved")
		verifAssert(ob == bval, "attrs: boolean value preserved")
		verifAssert(of == 1.5, "attrs: float value preserved")
	}
	// a clone is independent of the original
	c := cloneAttrs(out)
	c["s"] = "changed"
	v, _ := out["s"].(string)
	verifAssert(v == s, "cloneAttrs: mutating the clone leaves the source unchanged")
}

// H25c: the executor's bulk SetRowAttrs path (a query made only of
// SetRowAttrs calls) over a map-backed attribute store with the documented
// store semantics (merge, nil deletes): after the query, the row's attributes
// are the previous ones updated by every call in order.

type verifMemAttrStore struct {
	AttrStore
	m map[uint64]map[string]interface{}
}

func (s *verifMemAttrStore) apply(id uint64, attrs map[string]interface{}) {
	cur := s.m[id]
	if cur == nil {
		cur = map[string]interface{}{}
		s.m[id] = cur
	}
	for k, v := range attrs {
		if v == nil {
			delete(cur, k)
		} else {
			cur[k] = v
		}
	}
}

func (s *verifMemAttrStore) SetAttrs(id uint64, m map[string]interface{}) error {
	s.apply(id, m)
	return nil
}

func (s *verifMemAttrStore) SetBulkAttrs(m map[uint64]map[string]interface{}) error {
	for id, attrs := range m {
		s.apply(id, attrs)
	}
	return nil
}

func (s *verifMemAttrStore) Attrs(id uint64) (map[string]interface{}, error) {
	return cloneAttrs(s.m[id]), nil
}

func verifAttrArg() (interface{}, int) {
	k := verifChoice("val", 3)
	switch k {
	case 0:
		return int64(5), 0
	case 1:
		return "x", 1
	}
	return nil, 2
}

func VerifH25BulkRowAttrs() {
	store := &verifMemAttrStore{AttrStore: nopStore, m: map[uint64]map[string]interface{}{}}
	frag := verifNewFragment(CacheTypeNone, 0)
	fld := verifSetField("f", frag)
	fld.rowAttrStore = store
	idx := &Index{name: "i", fields: map[string]*Field{"f": fld}, Stats: stats.NopStatsClient}
	n0 := &Node{ID: "n0"}
	cl := &cluster{partitionN: defaultPartitionN, ReplicaN: 1, Hasher: &jmphasher{}, Node: n0}
	cl.addNodeBasicSorted(n0)
	e := &executor{Holder: &Holder{indexes: map[string]*Index{"i": idx}, Stats: stats.NopStatsClient}, Cluster: cl, Node: n0}

	keys := []string{"a", "b"}
	// expected value kind per key: -1 absent, 0 int, 1 string
	want := map[string]int{"a": -1, "b": -1}
	// an earlier query stored something
	if verifChoice("prior", 2) == 1 {
		k := keys[verifChoice("priorkey", 2)]
		store.apply(7, map[string]interface{}{k: int64(5)})
		want[k] = 0
	}
	ncalls := 1 + verifChoice("calls", verifBound("calls", 2))
	calls := make([]*pql.Call, ncalls)
	for i := range calls {
		k := keys[verifChoice("key", 2)]
		v, kind := verifAttrArg()
		calls[i] = &pql.Call{Name: "SetRowAttrs", Args: map[string]interface{}{"_field": "f", "_row": uint64(7), k: v}}
		if kind == 2 {
			want[k] = -1
		} else {
			want[k] = kind
		}
	}
	_, err := e.executeBulkSetRowAttrs(context.Background(), "i", calls, &execOptions{Remote: true})
	verifReach("bulk row attrs executed")
	verifAssert(err == nil, "bulk SetRowAttrs: no error")
	got, _ := store.Attrs(7)
	for _, k := range keys {
		v, present := got[k]
		switch want[k] {
		case -1:
			verifAssert(!present, "bulk SetRowAttrs: a key set to null (or never set) is absent")
		case 0:
			iv, ok := v.(int64)
			verifAssert(present && ok && iv == 5, "bulk SetRowAttrs: integer value stored")
		case 1:
			sv, ok := v.(string)
			verifAssert(present && ok && sv == "x", "bulk SetRowAttrs: string value stored")
		}
	}
}

package pilosa

import (
	"bytes"
	"os"
)

// H10b: cached block checksums of an integer (BSI) fragment equal the
// recomputed ones after value writes through every path: setValue,
// importValue below MaxOpN (positions path) and importValue at or above
// MaxOpN (per-value path followed by a real snapshot on the in-memory file
// system), set and clear. The fragment is file backed (real Open).
func VerifH10ValueChecksums() {
	dir := verifTempDir()
	defer verifCleanTemp(dir)
	_ = os.MkdirAll(dir+"/a", 0777)
	f := newFragment(dir+"/a/0", "i", "f", viewBSIGroupPrefix+"f", 0, 0)
	f.CacheType = CacheTypeNone
	// 1<<30: every import is a "small write"; 1: every import takes the bulk path
	f.MaxOpN = []int{1 << 30, 1}[verifChoice("maxopn", verifBound("maxopns", 2))]
	err := f.Open()
	verifAssert(err == nil, "fragment opens on an empty directory")
	if err != nil {
		return
	}
	depth := uint(verifBound("depth", 2))
	hot := []uint64{uint64(verifU16("col")), uint64(verifU16("col"))}
	value := func() int64 {
		lim := 1<<depth - 1
		return int64(verifChoice("value", 2*lim+1)) - int64(lim)
	}
	step := func(ops int) {
		k, v := verifChoice("colidx", verifBound("cols", 1)), value()
		switch verifChoice("op", ops) {
		case 0:
			_, err := f.setValue(hot[k], depth, v)
			verifAssert(err == nil, "setValue: no error")
		case 1:
			err := f.importValue([]uint64{hot[k]}, []int64{v}, depth, false)
			verifAssert(err == nil, "importValue: no error")
		case 2:
			err := f.importValue([]uint64{hot[k]}, []int64{v}, depth, true)
			verifAssert(err == nil, "importValue(clear): no error")
		case 3:
			_, err := f.clearValue(hot[k], depth, v)
			verifAssert(err == nil, "clearValue: no error")
		}
	}
	step(verifBound("ops1", 1))
	_ = f.Blocks() // populates the checksum cache
	step(verifBound("ops", 4))
	got := f.Blocks()
	f.InvalidateChecksums()
	want := f.Blocks()
	verifReach("value checksums compared")
	same := len(got) == len(want)
	if same {
		for i := range got {
			same = verifAnd(same, verifAnd(got[i].ID == want[i].ID, bytes.Equal(got[i].Checksum, want[i].Checksum)))
		}
	}
	verifAssert(same, "Blocks(): cached checksums equal recomputed checksums after value writes")
	_ = f.Close()
}

package pilosa

import "context"

// H11b: fragmentSyncer.syncBlock against two remote replicas played by real
// fragments behind a stub InternalClient: BlockData serves the replica's
// block, ImportRoaring applies the repair to the replica - but only if the
// request names the view the syncer's fragment belongs to (the external API
// resolves the view from that name). Afterwards all three replicas hold the
// per-bit majority.

type verifSyncClient struct {
	nopInternalClient
	view     string // the view being synchronised (fragment.view)
	replicas map[string]*fragment
	wrongView bool
}

func (c *verifSyncClient) BlockData(ctx context.Context, uri *URI, index, field, view string, shard uint64, block int) ([]uint64, []uint64, error) {
	if view != c.view {
		c.wrongView = true
	}
	rows, cols := c.replicas[uri.Host].blockData(block)
	return rows, cols, nil
}

func (c *verifSyncClient) ImportRoaring(ctx context.Context, uri *URI, index, field string, shard uint64, remote bool, req *ImportRoaringRequest) error {
	for name, data := range req.Views {
		// what API.ImportRoaring does with the name
		full := viewStandard
		if name != "" {
			full = viewStandard + "_" + name
		}
		if full != c.view {
			// the repair lands in another view: this replica's view stays as it is
			c.wrongView = true
			continue
		}
		if err := c.replicas[uri.Host].importRoaring(ctx, data, req.Clear); err != nil {
			return err
		}
	}
	return nil
}

func VerifH11SyncBlock() {
	view := []string{viewStandard, viewStandard + "_2019"}[verifChoice("view", 2)]
	mk := func() *fragment {
		f := verifNewFragment(CacheTypeNone, 2)
		f.view = view
		return f
	}
	local, r1, r2 := mk(), mk(), mk()
	frags := []*fragment{local, r1, r2}
	// a few hot bits; each replica holds a chosen subset
	nbits := verifBound("bits", 2)
	rows := make([]uint64, nbits)
	cols := make([]uint64, nbits)
	votes := make([]int, nbits)
	for i := 0; i < nbits; i++ {
		rows[i], cols[i] = verifRow(), verifCol()
		for j := 0; j < i; j++ {
			verifAssume(verifOr(rows[i] != rows[j], cols[i] != cols[j]))
		}
		for k, f := range frags {
			if verifChoice("holds", 2) == 1 {
				_, _ = f.setBit(rows[i], cols[i])
				votes[i]++
			}
			_ = k
		}
	}
	n0, n1, n2 := &Node{ID: "n0", URI: URI{Host: "n0"}}, &Node{ID: "n1", URI: URI{Host: "n1"}}, &Node{ID: "n2", URI: URI{Host: "n2"}}
	client := &verifSyncClient{view: view, replicas: map[string]*fragment{"n1": r1, "n2": r2}}
	cl := &cluster{partitionN: defaultPartitionN, ReplicaN: 3, Hasher: &jmphasher{}, Node: n0, InternalClient: client}
	cl.addNodeBasicSorted(n0)
	cl.addNodeBasicSorted(n1)
	cl.addNodeBasicSorted(n2)
	s := &fragmentSyncer{Fragment: local, Node: n0, Cluster: cl, Closing: make(chan struct{})}
	err := s.syncBlock(0)
	verifReach("block synchronised")
	verifAssert(err == nil, "syncBlock: no error")
	verifAssert(!client.wrongView, "reads and repairs name the view they were computed for")
	k := verifChoice("probe", nbits)
	want := votes[k] >= 2
	for _, f := range frags {
		b, _ := f.bit(rows[k], cols[k])
		verifAssert(b == want, "every replica holds the majority value after the pass")
	}
}

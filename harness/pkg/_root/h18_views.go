package pilosa

import "time"

// H18 (partial): every hour/day/month/year view name maps back to the
// instant it denotes. The range decomposition (viewsByTimeRange) is outside
// this check (see DESIGN.md section 5).

func VerifH18HourView() {
	h1, h2 := verifU8("h1"), verifU8("h2")
	verifAssume(verifAnd(h1 >= '0', h1 <= '2'))
	verifAssume(verifAnd(h2 >= '0', h2 <= '9'))
	verifAssume(verifOr(h1 < '2', h2 <= '3')) // 00..23
	days := []string{"20190101", "20191231", "20200229"}
	d := days[verifChoice("day", verifBound("days", 2))]
	name := viewStandard + "_" + d + string([]byte{h1, h2})
	t, err := timeOfView(name, false)
	verifReach("timeOfView(hour) returned")
	verifAssert(err == nil, "hour view name parses for every hour 00..23")
	if err == nil {
		hour := int(h1-'0')*10 + int(h2-'0')
		var want time.Time
		switch d {
		case "20190101":
			want = time.Date(2019, 1, 1, hour, 0, 0, 0, time.UTC)
		case "20191231":
			want = time.Date(2019, 12, 31, hour, 0, 0, 0, time.UTC)
		default:
			want = time.Date(2020, 2, 29, hour, 0, 0, 0, time.UTC)
		}
		verifAssert(t.Equal(want), "hour view name denotes its own hour")
	}
}

package pilosa

import (
	"bytes"
	"context"

	"github.com/pilosa/pilosa/roaring"
)

// H07: fragment write/read histories on a directly constructed fragment
// against a shadow specification.

// verifRoaringOf encodes one (row, column) bit the way an import client does.
func verifRoaringOf(r, c uint64) []byte {
	b := roaring.NewBitmap()
	b.DirectAdd(r*ShardWidth + c%ShardWidth)
	var buf bytes.Buffer
	_, _ = b.WriteTo(&buf)
	return buf.Bytes()
}

// verifFragmentStep applies one symbolic write (or read) to f and s.
// ops selects the alphabet: 0 setBit, 1 clearBit, 2 row read, 3 clearRow,
// 4 bulkImport set, 5 bulkImport clear, 6 setRow, 7 importRoaring set,
// 8 importRoaring clear.
func verifFragmentStep(f *fragment, s *verifBits, ops int) {
	switch verifChoice("op", ops) {
	case 0:
		r, c := verifRow(), verifCol()
		want := s.set(r, c)
		ch, err := f.setBit(r, c)
		verifAssert(err == nil, "setBit: no error")
		verifAssert(ch == want, "setBit: changed flag")
	case 1:
		r, c := verifRow(), verifCol()
		want := s.clear(r, c)
		ch, err := f.clearBit(r, c)
		verifAssert(err == nil, "clearBit: no error")
		verifAssert(ch == want, "clearBit: changed flag")
	case 2:
		r := verifRow()
		row := f.row(r)
		c := verifCol()
		verifAssert(verifRowHas(row, c) == s.has(r, c), "row(): membership mid-history")
	case 3:
		r := verifRow()
		want := s.clearRow(r)
		ch, err := f.clearRow(r)
		verifAssert(err == nil, "clearRow: no error")
		verifAssert(ch == want, "clearRow: changed flag")
	case 4:
		r1, c1, r2, c2 := verifRow(), verifCol(), verifRow(), verifCol()
		s.set(r1, c1)
		s.set(r2, c2)
		err := f.bulkImport([]uint64{r1, r2}, []uint64{c1, c2}, &ImportOptions{})
		verifAssert(err == nil, "bulkImport: no error")
	case 5:
		r1, c1, r2, c2 := verifRow(), verifCol(), verifRow(), verifCol()
		s.clear(r1, c1)
		s.clear(r2, c2)
		err := f.bulkImport([]uint64{r1, r2}, []uint64{c1, c2}, &ImportOptions{Clear: true})
		verifAssert(err == nil, "bulkImport(clear): no error")
	case 6:
		r, c := verifRow(), verifCol()
		s.clearRow(r)
		s.set(r, c)
		_, err := f.setRow(NewRow(c), r)
		verifAssert(err == nil, "setRow: no error")
	case 7:
		r, c := verifRow(), verifCol()
		s.set(r, c)
		err := f.importRoaring(context.Background(), verifRoaringOf(r, c), false)
		verifAssert(err == nil, "importRoaring: no error")
	case 8:
		r, c := verifRow(), verifCol()
		s.clear(r, c)
		err := f.importRoaring(context.Background(), verifRoaringOf(r, c), true)
		verifAssert(err == nil, "importRoaring(clear): no error")
	}
}

func verifFragmentCheck(f *fragment, s *verifBits) {
	r, c := verifRow(), verifCol()
	row := f.row(r)
	verifAssert(verifRowHas(row, c) == s.has(r, c), "row(): membership after history")
	b, err := f.bit(r, c)
	verifAssert(err == nil, "bit: no error")
	verifAssert(b == s.has(r, c), "bit(): agrees with history")
	verifAssert(row.Count() == s.rowCount(r), "row().Count agrees with history")
}

func verifCacheType() string {
	return []string{CacheTypeRanked, CacheTypeLRU, CacheTypeNone}[verifChoice("cache", verifBound("caches", 1))]
}

func VerifH07History() {
	f := verifNewFragment(verifCacheType(), 2)
	s := &verifBits{}
	steps := verifBound("steps", 2)
	for i := 0; i < steps; i++ {
		verifFragmentStep(f, s, verifBound("ops", 3))
	}
	verifReach("history done")
	verifFragmentCheck(f, s)
	verifAssert(verifLocksFree(), "fragment lock released")
}

// H10: the cached block checksums equal the recomputed ones after any write
// path. The block hasher is an uninterpreted function of the value sequence,
// so a stale cached digest differs from the recomputed one in some model.
func VerifH10Checksums() {
	f := verifNewFragment(verifCacheType(), 2)
	s := &verifBits{}
	ops := verifBound("ops", 9)
	verifFragmentStep(f, s, ops)
	_ = f.Blocks() // populates the checksum cache
	verifFragmentStep(f, s, ops)
	got := f.Blocks()
	f.InvalidateChecksums()
	want := f.Blocks()
	verifReach("checksums compared")
	same := len(got) == len(want)
	if same {
		for i := range got {
			same = verifAnd(same, verifAnd(got[i].ID == want[i].ID, bytes.Equal(got[i].Checksum, want[i].Checksum)))
		}
	}
	verifAssert(same, "Blocks(): cached checksums equal recomputed checksums")
}

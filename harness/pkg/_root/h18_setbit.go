package pilosa

import "time"

// H18c: Field.SetBit with a timestamp writes the bit into the standard view
// and into every view of the timestamp's quantum units - also when the bit is
// already set (with another timestamp or none). The field is created through
// Index.createField on the in-memory file system; views and fragments are
// created by the real code.

var verifInstantTimes = []time.Time{
	time.Date(2018, 12, 31, 23, 0, 0, 0, time.UTC),
	time.Date(2019, 1, 1, 0, 0, 0, 0, time.UTC),
	time.Date(2019, 1, 1, 1, 0, 0, 0, time.UTC),
	time.Date(2019, 1, 2, 0, 0, 0, 0, time.UTC),
	time.Date(2019, 2, 1, 0, 0, 0, 0, time.UTC),
}

func VerifH18SetBitViews() {
	dir := verifTempDir()
	defer verifCleanTemp(dir)
	idx := verifNewIndex(dir + "/i")
	q := verifQuanta[verifChoice("quantum", verifBound("quanta", 4))]
	f, err := idx.createField("f", FieldOptions{Type: FieldTypeTime, TimeQuantum: TimeQuantum(q)})
	verifAssert(err == nil, "time field created")
	if err != nil {
		return
	}
	row := uint64(1)
	col := uint64(verifU16("col"))
	n := 1 + verifChoice("writes", verifBound("writes", 2))
	used := make([]int, 0, n)
	for i := 0; i < n; i++ {
		k := verifChoice("instant", verifBound("instants", 3)+1) - 1 // -1: no timestamp
		var err error
		if k < 0 {
			_, err = f.SetBit(row, col, nil)
		} else {
			t := verifInstantTimes[k]
			_, err = f.SetBit(row, col, &t)
			used = append(used, k)
		}
		verifAssert(err == nil, "SetBit: no error")
	}
	verifReach("bits set with timestamps")
	std := f.view(viewStandard)
	verifAssert(std != nil, "standard view exists")
	if std != nil {
		frag := std.Fragment(0)
		verifAssert(frag != nil, "standard fragment exists")
		if frag != nil {
			b, _ := frag.bit(row, col)
			verifAssert(b, "the standard view holds the bit")
		}
	}
	for _, k := range used {
		for _, name := range verifViewNames(verifInstants[k], q) {
			v := f.view(name)
			ok := false
			if v != nil {
				if frag := v.Fragment(0); frag != nil {
					ok, _ = frag.bit(row, col)
				}
			}
			verifAssert(ok, "every view of a timestamp the bit was set with holds the bit")
		}
	}
	_ = f.Close()
}

package pilosa

import "time"

// H28b: field level. Two identical fields on the in-memory file system get
// the same writes, one through the single-write calls (SetBit / SetValue, in
// order), the other through one bulk import (Import / importValue). Every
// view the two fields end up with holds the same bits, and integer values read
// the same. Field types: set, mutex, bool, time (YMD), int.

func verifPathField(idx *Index, name string, typ int) (*Field, error) {
	switch typ {
	case 0:
		return idx.createField(name, FieldOptions{Type: FieldTypeSet, CacheType: CacheTypeRanked, CacheSize: 10})
	case 1:
		return idx.createField(name, FieldOptions{Type: FieldTypeMutex, CacheType: CacheTypeRanked, CacheSize: 10})
	case 2:
		return idx.createField(name, FieldOptions{Type: FieldTypeBool})
	case 3:
		return idx.createField(name, FieldOptions{Type: FieldTypeTime, TimeQuantum: "YMD"})
	}
	return idx.createField(name, FieldOptions{Type: FieldTypeInt, Min: -100, Max: 100})
}

func VerifH28FieldPaths() {
	dir := verifTempDir()
	defer verifCleanTemp(dir)
	idx := verifNewIndex(dir + "/i")
	typ := verifChoice("type", verifBound("types", 5))
	a, err := verifPathField(idx, "a", typ)
	verifAssert(err == nil, "field a created")
	b, err2 := verifPathField(idx, "b", typ)
	verifAssert(err2 == nil, "field b created")
	if err != nil || err2 != nil {
		return
	}
	hot := []uint64{uint64(verifU16("col")), uint64(verifU16("col"))}
	n := 1 + verifChoice("writes", verifBound("writes", 2))
	rows := make([]uint64, n)
	cols := make([]uint64, n)
	vals := make([]int64, n)
	stamps := make([]*time.Time, n)
	nrows := 3
	if typ == 2 {
		nrows = 2
	}
	for i := 0; i < n; i++ {
		cols[i] = hot[verifChoice("colidx", 2)]
		if typ == 4 {
			vals[i] = []int64{5, 0, -3}[verifChoice("value", 3)]
			continue
		}
		rows[i] = uint64(verifChoice("row", nrows))
		if typ == 3 {
			if k := verifChoice("instant", 3); k > 0 {
				t := verifInstantTimes[k]
				stamps[i] = &t
			}
		}
	}
	// mutex and bool fields may already hold a value (written the same way):
	// their imports treat stored and new rows differently
	if (typ == 1 || typ == 2) && verifChoice("prior", 2) == 1 {
		pr := uint64(verifChoice("prior.row", 2))
		_, _ = a.SetBit(pr, hot[0], nil)
		_, _ = b.SetBit(pr, hot[0], nil)
	}
	// path A: one call per write, in order
	for i := 0; i < n; i++ {
		var err error
		if typ == 4 {
			_, err = a.SetValue(cols[i], vals[i])
		} else {
			_, err = a.SetBit(rows[i], cols[i], stamps[i])
		}
		verifAssert(err == nil, "single write: no error")
	}
	// path B: one bulk import of the same writes
	if typ == 4 {
		err = b.importValue(append([]uint64{}, cols...), append([]int64{}, vals...), &ImportOptions{})
	} else {
		err = b.Import(append([]uint64{}, rows...), append([]uint64{}, cols...), stamps)
	}
	verifReach("both fields written")
	verifAssert(err == nil, "bulk import: no error")

	if typ == 4 {
		k := verifChoice("probe", 2)
		va, oka, _ := a.Value(hot[k])
		vb, okb, _ := b.Value(hot[k])
		verifAssert(oka == okb, "int field: same existence through both paths")
		verifAssert(!oka || va == vb, "int field: same value through both paths")
		verifAssert(a.Options().BitDepth == b.Options().BitDepth, "int field: same bit depth through both paths")
		return
	}
	// same set of views, same bits in each
	for name := range a.viewMap {
		verifAssert(b.viewMap[name] != nil, "a view written by single writes exists after the import ("+name+")")
	}
	for name := range b.viewMap {
		verifAssert(a.viewMap[name] != nil, "a view written by the import exists after single writes ("+name+")")
	}
	c := hot[verifChoice("probe.col", 2)]
	for name, va := range a.viewMap {
		vb := b.viewMap[name]
		if vb == nil {
			continue
		}
		fa, fb := va.Fragment(0), vb.Fragment(0)
		if fa == nil || fb == nil {
			verifAssert(fa == nil && fb == nil, "same fragments through both paths ("+name+")")
			continue
		}
		for r := uint64(0); r < uint64(nrows); r++ {
			ba, _ := fa.bit(r, c)
			bb, _ := fb.bit(r, c)
			verifAssert(ba == bb, "same bits through both paths ("+name+")")
			verifAssert(fa.row(r).Count() == fb.row(r).Count(), "same row counts through both paths ("+name+")")
		}
	}
}

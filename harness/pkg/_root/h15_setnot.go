package pilosa

import (
	"context"

	"github.com/pilosa/pilosa/pql"
	"github.com/pilosa/pilosa/stats"
)

// H15d: data written through the executor's own write calls (Set on a set
// field, Set on an int field, Clear) on a one-node cluster with existence
// tracking, then read with Not / Row: Not is relative to every column written
// by Set, whatever the field type.

func VerifH15SetNot() {
	frag := verifNewFragment(CacheTypeNone, 0)
	efrag := verifNewFragment(CacheTypeNone, 0)
	ifrag := verifNewFragment(CacheTypeNone, 0)
	fld := verifSetField("f", frag)
	efld := verifSetField(existenceFieldName, efrag)
	bsig := &bsiGroup{Name: "n", Type: bsiGroupTypeInt, Min: -100, Max: 100, Base: 0, BitDepth: 7}
	iv := &view{index: "i", field: "n", name: viewBSIGroupPrefix + "n", fieldType: FieldTypeInt, cacheType: CacheTypeNone,
		fragments: map[uint64]*fragment{0: ifrag}, stats: stats.NopStatsClient}
	ifld := &Field{index: "i", name: "n", viewMap: map[string]*view{iv.name: iv}, bsiGroups: []*bsiGroup{bsig},
		Stats: stats.NopStatsClient, options: FieldOptions{Type: FieldTypeInt, Min: -100, Max: 100, BitDepth: 7}}
	idx := &Index{name: "i", fields: map[string]*Field{"f": fld, "n": ifld, existenceFieldName: efld}, trackExistence: true, existenceFld: efld, Stats: stats.NopStatsClient}
	n0 := &Node{ID: "n0"}
	cl := &cluster{partitionN: defaultPartitionN, ReplicaN: 1, Hasher: &jmphasher{}, Node: n0}
	cl.addNodeBasicSorted(n0)
	e := &executor{Holder: &Holder{indexes: map[string]*Index{"i": idx}, Stats: stats.NopStatsClient}, Cluster: cl, Node: n0}
	opt := &execOptions{}

	hot := []uint64{uint64(verifU16("col")), uint64(verifU16("col"))}
	// specification: which columns exist / are in row 1
	exists := []bool{false, false}
	inRow := []bool{false, false}
	steps := verifBound("steps", 2)
	for i := 0; i < steps; i++ {
		k := verifChoice("colidx", 2)
		col := hot[k]
		switch verifChoice("write", 3) {
		case 0:
			_, err := e.executeSet(context.Background(), "i", &pql.Call{Name: "Set", Args: map[string]interface{}{"_col": col, "f": uint64(1)}}, opt)
			verifAssert(err == nil, "Set(set field): no error")
			for j := range hot {
				same := hot[j] == col
				exists[j] = verifOr(exists[j], same)
				inRow[j] = verifOr(inRow[j], same)
			}
		case 1:
			_, err := e.executeSet(context.Background(), "i", &pql.Call{Name: "Set", Args: map[string]interface{}{"_col": col, "n": int64(5)}}, opt)
			verifAssert(err == nil, "Set(int field): no error")
			for j := range hot {
				exists[j] = verifOr(exists[j], hot[j] == col)
			}
		case 2:
			_, err := e.executeClearBit(context.Background(), "i", &pql.Call{Name: "Clear", Args: map[string]interface{}{"_col": col, "f": uint64(1)}}, opt)
			verifAssert(err == nil, "Clear: no error")
			for j := range hot {
				inRow[j] = verifAnd(inRow[j], hot[j] != col)
			}
		}
	}
	verifReach("writes executed")
	k := verifChoice("probe", 2)
	row, err := e.executeBitmapCallShard(context.Background(), "i", &pql.Call{Name: "Not", Children: []*pql.Call{verifRowCall(1)}}, 0)
	verifAssert(err == nil, "Not: no error")
	verifAssert(verifRowHas(row, hot[k]) == verifAnd(exists[k], !inRow[k]), "Not(Row) = columns written by Set minus the row")
	r1, err := e.executeBitmapCallShard(context.Background(), "i", verifRowCall(1), 0)
	verifAssert(err == nil, "Row: no error")
	verifAssert(verifRowHas(r1, hot[k]) == inRow[k], "Row reflects Set and Clear")
}

package pilosa

// H17a: reducers used by mapReduce against their semantic oracle. Partial
// results are fully symbolic, so one fold order covers every arrival order
// and every grouping of shards onto nodes (nested folds are checked
// separately for associativity).

func verifValCounts(n int) []ValCount {
	vs := make([]ValCount, n)
	for i := range vs {
		vs[i] = ValCount{Val: verifI64("val"), Count: verifI64("count")}
		// counts are numbers of columns; values of empty partials are 0 as
		// produced by fragment.min/max/sum
		verifAssume(verifAnd(vs[i].Count >= 0, vs[i].Count <= 1<<40))
		verifAssume(verifImplies(vs[i].Count == 0, vs[i].Val == 0))
	}
	return vs
}

func VerifH17MinReducer() {
	n := 2 + verifChoice("n", verifBound("partials", 3)-1)
	vs := verifValCounts(n)
	// fold exactly as executeMin's reduce function does
	var acc ValCount
	for i := range vs {
		acc = acc.smaller(vs[i])
	}
	// oracle
	any := false
	var best int64
	for i := range vs {
		has := vs[i].Count > 0
		better := verifAnd(has, verifOr(!any, vs[i].Val < best))
		best = verifIteI64(better, vs[i].Val, best)
		any = verifOr(any, has)
	}
	var cnt int64
	for i := range vs {
		cnt += verifIteI64(verifAnd(vs[i].Count > 0, vs[i].Val == best), vs[i].Count, 0)
	}
	verifClass("tie-between-partials", verifValCountTie(vs))
	verifReach("min reducer")
	verifAssert(verifImplies(any, acc.Val == best), "min: value")
	verifAssert(verifImplies(any, acc.Count == cnt), "min: count is the total over all partials holding the minimum")
	verifAssert(verifImplies(!any, acc.Count == 0), "min: empty")
}

func VerifH17MaxReducer() {
	n := 2 + verifChoice("n", verifBound("partials", 3)-1)
	vs := verifValCounts(n)
	var acc ValCount
	for i := range vs {
		acc = acc.larger(vs[i])
	}
	any := false
	var best int64
	for i := range vs {
		has := vs[i].Count > 0
		better := verifAnd(has, verifOr(!any, vs[i].Val > best))
		best = verifIteI64(better, vs[i].Val, best)
		any = verifOr(any, has)
	}
	var cnt int64
	for i := range vs {
		cnt += verifIteI64(verifAnd(vs[i].Count > 0, vs[i].Val == best), vs[i].Count, 0)
	}
	verifClass("tie-between-partials", verifValCountTie(vs))
	verifReach("max reducer")
	verifAssert(verifImplies(any, acc.Val == best), "max: value")
	verifAssert(verifImplies(any, acc.Count == cnt), "max: count is the total over all partials holding the maximum")
	verifAssert(verifImplies(!any, acc.Count == 0), "max: empty")
}

func verifValCountTie(vs []ValCount) bool {
	tie := false
	for i := range vs {
		for j := i + 1; j < len(vs); j++ {
			tie = verifOr(tie, verifAnd(verifAnd(vs[i].Count > 0, vs[j].Count > 0), vs[i].Val == vs[j].Val))
		}
	}
	return tie
}

func VerifH17SumReducer() {
	n := 2 + verifChoice("n", verifBound("partials", 3)-1)
	vs := make([]ValCount, n)
	var sum, cnt int64
	for i := range vs {
		vs[i] = ValCount{Val: verifI64("val"), Count: verifI64("count")}
		verifAssume(verifAnd(vs[i].Count >= 0, vs[i].Count <= 1<<40))
		sum += vs[i].Val
		cnt += vs[i].Count
	}
	var acc ValCount
	for i := range vs {
		acc = acc.add(vs[i])
	}
	verifReach("sum reducer")
	verifAssert(acc.Val == sum, "sum: value")
	verifAssert(acc.Count == cnt, "sum: count")
	// associativity / grouping onto nodes: (a+b)+c == a+(b+c)
	if n == 3 {
		ab := vs[0].add(vs[1])
		l := ab.add(vs[2])
		bc := vs[1].add(vs[2])
		r := vs[0].add(bc)
		verifAssert(verifAnd(l.Val == r.Val, l.Count == r.Count), "sum: associative")
		ba := vs[1].add(vs[0])
		verifAssert(verifAnd(ab.Val == ba.Val, ab.Count == ba.Count), "sum: commutative")
	}
}

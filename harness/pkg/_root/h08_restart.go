package pilosa

import (
	"os"

	"github.com/pilosa/pilosa/logger"
	"github.com/pilosa/pilosa/roaring"
	"github.com/pilosa/pilosa/stats"
)

// H08 (partial): clean restart of the metadata layer. Fields and indexes are
// created with the real creation path (Index.createField: newField, Open,
// applyOptions, saveMeta) over an in-memory file system, written to, then
// "restarted": a fresh Field/Index object on the same path runs the real
// Open/loadMeta. Fragment contents are kept as they are (their persistence is
// C04/C09); what is checked is that the reloaded options interpret them the
// same way. Directory listings (openViews/openFields), the attribute store and
// the translate file are outside this check.

func verifTempDir() string {
	if verifNative() {
		d, _ := os.MkdirTemp("", "verif-restart")
		return d
	}
	return "/vfs"
}

// NewIndex without the name check (a regular expression, not interpreted)
func verifNewIndex(path string) *Index {
	return &Index{path: path, name: "i", fields: make(map[string]*Field), newAttrStore: newNopAttrStore, columnAttrs: nopStore,
		broadcaster: NopBroadcaster, Stats: stats.NopStatsClient, logger: logger.NopLogger, trackExistence: true}
}

func verifCleanTemp(d string) {
	if verifNative() {
		os.RemoveAll(d)
	}
}

// the options a client sees for a field (FieldOptions.MarshalJSON prints
// exactly these per type)
func verifVisibleOptionsEqual(a, b FieldOptions) bool {
	if a.Type != b.Type || a.Keys != b.Keys {
		return false
	}
	switch a.Type {
	case FieldTypeSet, FieldTypeMutex:
		return a.CacheType == b.CacheType && a.CacheSize == b.CacheSize
	case FieldTypeInt:
		return verifAnd(verifAnd(a.Base == b.Base, a.BitDepth == b.BitDepth), verifAnd(a.Min == b.Min, a.Max == b.Max))
	case FieldTypeTime:
		return a.TimeQuantum == b.TimeQuantum && a.NoStandardView == b.NoStandardView
	}
	return true
}

func verifAttachIntView(f *Field, frag *fragment) {
	v := &view{index: "i", field: f.name, name: viewBSIGroupPrefix + f.name, fieldType: FieldTypeInt, cacheType: CacheTypeNone,
		fragments: map[uint64]*fragment{0: frag}, stats: stats.NopStatsClient}
	f.viewMap[v.name] = v
}

func VerifH08IntField() {
	dir := verifTempDir()
	defer verifCleanTemp(dir)
	min, max := verifI64("min"), verifI64("max")
	verifAssume(min <= max)
	idx := verifNewIndex(dir + "/i")
	f, err := idx.createField("f", FieldOptions{Type: FieldTypeInt, Min: min, Max: max})
	verifAssert(err == nil, "int field created")
	if err != nil {
		return
	}
	frag := verifNewFragment(CacheTypeNone, 0)
	verifAttachIntView(f, frag)
	n := verifChoice("values", verifBound("values", 2)+1)
	cols := make([]uint64, n)
	vals := make([]int64, n)
	for i := 0; i < n; i++ {
		cols[i] = uint64(verifU16("col"))
		for j := 0; j < i; j++ {
			verifAssume(cols[i] != cols[j])
		}
		vals[i] = int64(int8(verifU8("value")))
		lim := int64(verifBound("magnitude", 7))
		verifAssume(verifAnd(vals[i] >= -lim, vals[i] <= lim))
		verifAssume(verifAnd(vals[i] >= min, vals[i] <= max))
		_, err := f.SetValue(cols[i], vals[i])
		verifAssert(err == nil, "SetValue: no error")
	}
	before := f.Options()
	// restart: a new Field object on the same path, same fragment contents
	idx2 := verifNewIndex(dir + "/i")
	f2, err := idx2.newField(idx2.fieldPath("f"), "f")
	verifAssert(err == nil, "field object created")
	err = f2.Open()
	verifReach("field reopened")
	verifAssert(err == nil, "field reopens")
	if err != nil {
		return
	}
	verifAttachIntView(f2, frag)
	verifAssert(verifVisibleOptionsEqual(before, f2.Options()), "int field options unchanged by a restart")
	if n > 0 {
		k := verifChoice("probe", n)
		v, ok, err := f2.Value(cols[k])
		verifAssert(err == nil, "Value after restart: no error")
		verifAssert(ok, "Value after restart: exists")
		verifAssert(v == vals[k], "Value after restart: the value written")
	}
}

func VerifH08FieldMeta() {
	dir := verifTempDir()
	defer verifCleanTemp(dir)
	var fo FieldOptions
	caches := []string{CacheTypeRanked, CacheTypeLRU, CacheTypeNone, ""}
	switch verifChoice("type", 4) {
	case 0:
		fo = FieldOptions{Type: FieldTypeSet, CacheType: caches[verifChoice("cache", 4)], CacheSize: verifU32("cachesize"), Keys: verifBool("keys")}
	case 1:
		fo = FieldOptions{Type: FieldTypeMutex, CacheType: caches[verifChoice("cache", 4)], CacheSize: verifU32("cachesize"), Keys: verifBool("keys")}
	case 2:
		quanta := []TimeQuantum{"Y", "YM", "YMD", "YMDH", "M", "MD", "MDH", "D", "DH", "H"}
		fo = FieldOptions{Type: FieldTypeTime, TimeQuantum: quanta[verifChoice("quantum", len(quanta))], NoStandardView: verifBool("nostandard"), Keys: verifBool("keys")}
	default:
		fo = FieldOptions{Type: FieldTypeBool}
	}
	idx := verifNewIndex(dir + "/i")
	f, err := idx.createField("f", fo)
	verifAssert(err == nil, "field created")
	if err != nil {
		return
	}
	// shards known to hold data on other nodes
	shards := roaring.NewBitmap()
	ns := verifChoice("shards", 3)
	want := make([]uint64, ns)
	for i := 0; i < ns; i++ {
		want[i] = uint64(verifU8("shard"))
		shards.DirectAdd(want[i])
	}
	if ns > 0 {
		err = f.AddRemoteAvailableShards(shards)
		verifAssert(err == nil, "available shards saved")
	}
	// a shard may be dropped again (after a resize moved it away)
	if ns > 0 && verifChoice("remove", 2) == 1 {
		k := verifChoice("removeidx", ns)
		err = f.RemoveAvailableShard(want[k])
		verifAssert(err == nil, "available shard removed")
		gone := want[k]
		for i := range want {
			if want[i] == gone {
				want[i] = 1 << 40 // never probed
			}
		}
	}
	before := f.Options()
	idx2 := verifNewIndex(dir + "/i")
	f2, err := idx2.newField(idx2.fieldPath("f"), "f")
	verifAssert(err == nil, "field object created")
	err = f2.Open()
	verifReach("field reopened")
	verifAssert(err == nil, "field reopens")
	if err != nil {
		return
	}
	verifAssert(verifVisibleOptionsEqual(before, f2.Options()), "field options unchanged by a restart")
	x := uint64(verifU8("probe"))
	in := false
	for i := range want {
		in = verifOr(in, want[i] == x)
	}
	verifAssert(f2.AvailableShards().Contains(x) == in, "available shards unchanged by a restart")
}

func VerifH08IndexMeta() {
	dir := verifTempDir()
	defer verifCleanTemp(dir)
	idx := verifNewIndex(dir + "/i")
	idx.keys = verifBool("keys")
	idx.trackExistence = verifBool("trackexistence")
	_ = os.MkdirAll(idx.path, 0777) // Index.Open does this first
	err := idx.saveMeta()
	verifAssert(err == nil, "index meta saved")
	idx2 := verifNewIndex(dir + "/i")
	err = idx2.loadMeta()
	verifReach("index meta reloaded")
	verifAssert(err == nil, "index meta loads")
	verifAssert(idx2.keys == idx.keys, "index keys option unchanged by a restart")
	verifAssert(idx2.trackExistence == idx.trackExistence, "index existence tracking unchanged by a restart")
}

package pilosa

import (
	"bytes"
	"context"

	"github.com/pilosa/pilosa/roaring"
)

// H09b: process-kill model for one fragment. The fragment's storage file is
// "snapshot ++ op log"; the op-log sink records the end offset of each Write
// (a completed syscall). After a history of acknowledged fragment writes the
// process dies after an arbitrary completed write. Recovery = the decoder the
// real fragment.openStorage uses (Bitmap.UnmarshalBinary) on the bytes that
// reached the file. It must succeed; comparing whole bitmaps (Xor().Any()), the
// recovered state must equal the live state at the last acknowledged write,
// or - when a write was in flight - the live state right after that write
// ("none or all" per shard).
//
// Not modelled: the snapshot path (.snapshotting + rename needs a file-system
// model), caches rebuilt at open, several shards/views per write.

type verifCutLog struct {
	buf  bytes.Buffer
	cuts []int
}

func (w *verifCutLog) Write(p []byte) (int, error) {
	n, err := w.buf.Write(p)
	w.cuts = append(w.cuts, w.buf.Len())
	return n, err
}

func verifCrashRow() uint64 { return uint64(verifChoice("row", verifBound("rows", 4))) }

func verifCrashHistory(kind int) {
	f := verifNewFragment(CacheTypeNone, 2)
	switch kind {
	case 1:
		f.mutexVector = newRowsVector(f)
	case 2:
		f.mutexVector = newBoolVector(f)
	}
	var snap bytes.Buffer
	_, _ = f.storage.WriteTo(&snap)
	w := &verifCutLog{}
	f.storage.OpWriter = w
	hot := []uint64{uint64(verifU16("col")), uint64(verifU16("col"))}
	col := func() uint64 { return hot[verifChoice("colidx", 2)] }

	type ack struct {
		st  *roaring.Bitmap
		end int
		op  int
	}
	acks := []ack{{st: f.storage.Clone(), end: 0, op: -1}}
	steps := verifBound("steps", 2)
	for i := 0; i < steps; i++ {
		op := verifChoice("op", verifBound("ops", 8))
		var err error
		switch op {
		case 0:
			_, err = f.setBit(verifCrashRow(), col())
		case 1:
			_, err = f.clearBit(verifCrashRow(), col())
		case 2:
			err = f.bulkImport([]uint64{verifCrashRow(), verifCrashRow()}, []uint64{col(), col()}, &ImportOptions{})
		case 3:
			err = f.importRoaring(context.Background(), verifRoaringOf(verifCrashRow(), col()), verifChoice("clear", 2) == 1)
		case 4:
			// integer write: exists row 0, sign row 1, magnitude rows 2..3
			_, err = f.setValue(col(), 2, int64(verifChoice("value", 5))-2)
		case 5:
			_, err = f.clearRow(verifCrashRow())
		case 6:
			_, err = f.setRow(NewRow(col()), verifCrashRow())
		case 7:
			err = f.bulkImport([]uint64{verifCrashRow(), verifCrashRow()}, []uint64{col(), col()}, &ImportOptions{Clear: true})
		}
		verifAssert(err == nil, "write acknowledged without error")
		acks = append(acks, ack{st: f.storage.Clone(), end: w.buf.Len(), op: op})
	}
	verifReach("history acknowledged")

	cuts := append([]int{0}, w.cuts...)
	cut := cuts[verifChoice("kill", len(cuts))]
	data := append(append([]byte{}, snap.Bytes()...), w.buf.Bytes()[:cut]...)
	rec := roaring.NewFileBitmap()
	err := rec.UnmarshalBinary(data)
	verifAssert(err == nil, "restart after a kill between writes succeeds")
	if err != nil {
		return
	}
	// k = last write acknowledged at the kill point. A write that issues no
	// file-system operation at all is acknowledged while the file is unchanged:
	// it counts as acknowledged at every kill point after it.
	k := 0
	for i := range acks {
		if acks[i].end <= cut {
			k = i
		}
	}
	inflight := k+1 < len(acks)
	same := func(a, b *roaring.Bitmap) bool { return !a.Xor(b).Any() }
	eqAck := same(rec, acks[k].st)
	// classes of recorded findings (see known_findings.jsonl)
	unlogged := false
	for i := 1; i <= k; i++ {
		if acks[i].op == 5 || acks[i].op == 6 {
			unlogged = true
		}
	}
	verifClass("rowstore-unlogged", unlogged)
	if inflight {
		nop := acks[k+1].op
		torn := cut > acks[k].end
		verifClass("setvalue-torn", nop == 4 && torn)
		verifClass("mutex-torn", kind != 0 && (nop == 0 || nop == 2) && torn)
		verifAssert(verifOr(eqAck, same(rec, acks[k+1].st)), "write in flight: the shard holds none or all of it")
	} else {
		verifAssert(eqAck, "every acknowledged write is present after restart")
	}
}

func VerifH09FragmentCrash() { verifCrashHistory(0) }
func VerifH09MutexCrash()    { verifCrashHistory(1 + verifChoice("bool", 2)) }

package pilosa

import (
	"context"

	"github.com/pilosa/pilosa/pql"
	"github.com/pilosa/pilosa/stats"
)

// H16b: GroupBy over three set fields on one shard through the real per-shard
// entry point (executeGroupByShard -> newGroupByIterator/Next): the result is
// every (ra, rb, rc) with a nonzero intersection count, ascending, strictly
// after `previous` when given, cut at `limit`. Data: two columns with free low
// bits; each field holds one of a few row patterns over them.

// pattern p -> rows (0,1) x columns (c0,c1) membership
var verifGroupPatterns = [][2][2]bool{
	{{true, false}, {false, false}}, // row0:{c0}
	{{true, false}, {false, true}},  // row0:{c0} row1:{c1}
	{{true, true}, {false, false}},  // row0:{c0,c1}
	{{false, false}, {true, false}}, // row1:{c0}
	{{true, false}, {true, false}},  // row0:{c0} row1:{c0}
	{{false, true}, {true, true}},   // row0:{c1} row1:{c0,c1}
}

func VerifH16GroupBy() {
	names := []string{"a", "b", "c"}
	cols := [2]uint64{uint64(verifU16("col")), uint64(verifU16("col"))}
	verifAssume(cols[0] != cols[1])
	fields := map[string]*Field{}
	var pat [3][2][2]bool
	for i, n := range names {
		frag := verifNewFragment(CacheTypeNone, 0)
		pat[i] = verifGroupPatterns[verifChoice("pattern", verifBound("patterns", 4))]
		for r := 0; r < 2; r++ {
			for c := 0; c < 2; c++ {
				if pat[i][r][c] {
					_, _ = frag.setBit(uint64(r), cols[c])
				}
			}
		}
		fields[n] = verifSetField(n, frag)
	}
	// optional filter: Row(g=1) holding a chosen subset of the two columns
	inFilter := [2]bool{true, true}
	var filter *pql.Call
	if verifChoice("filter", verifBound("filters", 2)) == 1 {
		gfrag := verifNewFragment(CacheTypeNone, 0)
		sub := [][2]bool{{true, false}, {false, true}, {true, true}}[verifChoice("filter.cols", 3)]
		inFilter = sub
		for c := 0; c < 2; c++ {
			if sub[c] {
				_, _ = gfrag.setBit(1, cols[c])
			}
		}
		fields["g"] = verifSetField("g", gfrag)
		filter = &pql.Call{Name: "Row", Args: map[string]interface{}{"g": uint64(1)}}
	}
	idx := &Index{name: "i", fields: fields, Stats: stats.NopStatsClient}
	e := &executor{Holder: &Holder{indexes: map[string]*Index{"i": idx}, Stats: stats.NopStatsClient}}

	hasPrev := verifChoice("hasprev", 2) == 1
	var prev [3]uint64
	children := make([]*pql.Call, 3)
	for i, n := range names {
		args := map[string]interface{}{"_field": n}
		if hasPrev {
			prev[i] = uint64(verifChoice("prev", 2))
			args["previous"] = prev[i]
		}
		children[i] = &pql.Call{Name: "Rows", Args: args}
	}
	call := &pql.Call{Name: "GroupBy", Children: children, Args: map[string]interface{}{}}
	limit := -1
	if verifChoice("haslimit", 2) == 1 {
		limit = 1 + verifChoice("limit", 2)
		call.Args["limit"] = uint64(limit)
	}

	// expected groups, lexicographic order
	type group struct {
		ids [3]uint64
		n   uint64
	}
	var want []group
	for ra := 0; ra < 2; ra++ {
		for rb := 0; rb < 2; rb++ {
			for rc := 0; rc < 2; rc++ {
				var n uint64
				for c := 0; c < 2; c++ {
					if pat[0][ra][c] && pat[1][rb][c] && pat[2][rc][c] && inFilter[c] {
						n++
					}
				}
				ids := [3]uint64{uint64(ra), uint64(rb), uint64(rc)}
				after := !hasPrev
				if hasPrev {
					for k := 0; k < 3; k++ {
						if ids[k] != prev[k] {
							after = ids[k] > prev[k]
							break
						}
					}
				}
				if n > 0 && after && (limit < 0 || len(want) < limit) {
					want = append(want, group{ids, n})
				}
			}
		}
	}

	got, err := e.executeGroupByShard(context.Background(), "i", call, filter, 0, make([]RowIDs, 3))
	verifReach("group by executed")
	verifAssert(err == nil, "GroupBy: no error")
	verifAssert(len(got) == len(want), "GroupBy: number of groups")
	if len(got) == len(want) {
		for k := range got {
			ok := got[k].Count == want[k].n && len(got[k].Group) == 3
			if ok {
				for j := 0; j < 3; j++ {
					ok = ok && got[k].Group[j].RowID == want[k].ids[j] && got[k].Group[j].Field == names[j]
				}
			}
			verifAssert(ok, "GroupBy: groups ascending with exact counts, after previous")
		}
	}
}

package pilosa

import (
	"bytes"
	"os"

	"github.com/pilosa/pilosa/roaring"
)

// verifNewFragment constructs a fragment directly (no files): B-tree storage
// with an in-memory op-log sink, row cache, count cache of the given type,
// empty checksum cache. f.file is a dummy non-nil handle so that reopen()
// does not touch the file system; MaxOpN is large so that no snapshot is
// triggered (snapshots need the file-system model, outside this harness).
func verifNewFragment(cacheType string, cacheSize uint32) *fragment {
	f := newFragment("/nonexistent/verif-fragment", "i", "f", viewStandard, 0, 0)
	f.storage = roaring.NewFileBitmap()
	f.storage.OpWriter = &bytes.Buffer{}
	f.file = new(os.File)
	f.CacheType = cacheType
	f.CacheSize = cacheSize
	switch cacheType {
	case CacheTypeRanked:
		f.cache = NewRankCache(cacheSize)
	case CacheTypeLRU:
		f.cache = newLRUCache(cacheSize)
	default:
		f.cache = globalNopCache
	}
	f.rowCache = &simpleCache{make(map[uint64]*Row)}
	f.checksums = make(map[int][]byte)
	f.MaxOpN = 1 << 40
	// a snapshot is already "queued, not yet run": enqueueSnapshot returns at
	// once (row stores/clears request one); real snapshots need the FS model
	f.snapshotting = true
	return f
}

// verifBits is the specification of a fragment's contents: a list of
// (row, column, present) slots, membership by disjunction.
type verifBits struct {
	rows, cols []uint64
	in         []bool
}

func (s *verifBits) has(r, c uint64) bool {
	x := false
	for i := range s.rows {
		x = verifOr(x, verifAnd(s.in[i], verifAnd(s.rows[i] == r, s.cols[i] == c)))
	}
	return x
}

func (s *verifBits) set(r, c uint64) bool {
	was := s.has(r, c)
	s.rows = append(s.rows, r)
	s.cols = append(s.cols, c)
	s.in = append(s.in, !was)
	return !was
}

func (s *verifBits) clear(r, c uint64) bool {
	was := s.has(r, c)
	for i := range s.rows {
		s.in[i] = verifAnd(s.in[i], !verifAnd(s.rows[i] == r, s.cols[i] == c))
	}
	return was
}

func (s *verifBits) clearRow(r uint64) bool {
	any := false
	for i := range s.rows {
		hit := verifAnd(s.in[i], s.rows[i] == r)
		any = verifOr(any, hit)
		s.in[i] = verifAnd(s.in[i], s.rows[i] != r)
	}
	return any
}

func (s *verifBits) rowCount(r uint64) uint64 {
	var n uint64
	for i := range s.rows {
		n += verifIteU64(verifAnd(s.in[i], s.rows[i] == r), 1, 0)
	}
	return n
}

// verifRowChoice / verifColChoice: a few hot rows, columns in two containers
// of the shard with free low bits.
func verifRow() uint64 {
	rows := []uint64{0, 1, 2, 100}
	return rows[verifChoice("row", verifBound("rows", 2))]
}

func verifCol() uint64 {
	hi := []uint64{0, 1, 15}
	return hi[verifChoice("colhi", verifBound("colhis", 2))]<<16 | uint64(verifU16("collo"))
}

func verifRowHas(r *Row, col uint64) bool {
	if r == nil {
		return false
	}
	x := false
	for i := range r.segments {
		if r.segments[i].shard == col/ShardWidth {
			x = verifOr(x, r.segments[i].data.Contains(col))
		}
	}
	return x
}

package pilosa

// H14c: Sum/Min/Max over an integer fragment with an optional filter row, and
// H14d: Field.importValue batches over columns that already hold a value of a
// different magnitude.

func VerifH14Aggregates() {
	fi, cols, vals, exists := verifIntSetup()
	d := fi.bsig.BitDepth
	// filter: none, or a row holding a symbolic subset of the columns
	var filter *Row
	inFilter := make([]bool, len(cols))
	for i := range inFilter {
		inFilter[i] = true
	}
	if verifChoice("filter", 2) == 1 {
		filter = NewRow()
		for i := range cols {
			inFilter[i] = verifChoice("infilter", 2) == 1
			if inFilter[i] {
				filter.SetBit(cols[i])
			}
		}
	}
	var wantSum int64
	var wantN uint64
	for i := range cols {
		if exists[i] && inFilter[i] {
			wantSum += vals[i] - fi.bsig.Base
			wantN++
		}
	}
	sum, n, err := fi.frag.sum(filter, d)
	verifReach("sum computed")
	verifAssert(err == nil, "sum: no error")
	verifAssert(n == wantN, "sum: count of considered columns")
	verifAssert(sum == wantSum, "sum: sum of the stored (base-relative) values of the considered columns")
	if wantN > 0 {
		mn, _, err := fi.frag.min(filter, d)
		verifAssert(err == nil, "min: no error")
		mx, _, err := fi.frag.max(filter, d)
		verifAssert(err == nil, "max: no error")
		for i := range cols {
			if exists[i] && inFilter[i] {
				v := vals[i] - fi.bsig.Base
				verifAssert(verifAnd(mn <= v, v <= mx), "min/max bound every considered value")
			}
		}
		hitMin, hitMax := false, false
		for i := range cols {
			if exists[i] && inFilter[i] {
				v := vals[i] - fi.bsig.Base
				hitMin = verifOr(hitMin, v == mn)
				hitMax = verifOr(hitMax, v == mx)
			}
		}
		verifAssert(verifAnd(hitMin, hitMax), "min/max are attained by a considered column")
	}
}

func VerifH14Import() {
	dir := verifTempDir()
	defer verifCleanTemp(dir)
	fi := verifNewIntField(-1000, 1000, 0, 1)
	fi.fld.path = dir
	col := uint64(verifU16("col"))
	other := uint64(verifU16("col"))
	verifAssume(col != other)
	// magnitudes of different bit depths, both signs
	table := []int64{100, -1, 0, 3, -100, 1}
	value := func() int64 { return table[verifChoice("value", verifBound("values", 5))] }
	batches := 1 + verifChoice("batches", verifBound("batches", 2))
	var last, lastOther int64
	hasOther := false
	for b := 0; b < batches; b++ {
		v := value()
		cs, vs := []uint64{col}, []int64{v}
		last = v
		if verifChoice("two", 2) == 1 {
			w := value()
			cs, vs = append(cs, other), append(vs, w)
			lastOther, hasOther = w, true
		}
		err := fi.fld.importValue(cs, vs, &ImportOptions{})
		verifAssert(err == nil, "importValue: no error")
	}
	verifReach("value batches imported")
	got, ok, err := fi.fld.Value(col)
	verifAssert(err == nil, "Value: no error")
	verifAssert(ok, "Value: exists")
	verifAssert(got == last, "Value: reads the last imported value")
	if hasOther {
		got, ok, err := fi.fld.Value(other)
		verifAssert(err == nil && ok, "Value(other): exists")
		verifAssert(got == lastOther, "Value(other): reads the last imported value")
	}
}

// H14e: Field.SetValue on a field whose base is not 0 (metadata upgraded from
// the v1 format has base = min): the value reads back, the bit depth stays a
// depth, and an equality range query finds the column.
func VerifH14SetValueBase() {
	dir := verifTempDir()
	defer verifCleanTemp(dir)
	min := int64(int8(verifU8("min")))
	max := int64(int8(verifU8("max")))
	verifAssume(min <= max)
	base := int64(0)
	if verifChoice("legacy", 2) == 1 {
		base = min // as left by loadMeta for v1 metadata
	}
	fi := verifNewIntField(min, max, base, 1)
	fi.fld.path = dir
	col := uint64(verifU16("col"))
	v := int64(int8(verifU8("value")))
	verifAssume(verifAnd(min <= v, v <= max))
	_, err := fi.fld.SetValue(col, v)
	verifReach("value set")
	verifAssert(err == nil, "SetValue: no error")
	verifAssert(fi.bsig.BitDepth <= 63, "SetValue: the bit depth stays below 64")
	got, ok, err := fi.fld.Value(col)
	verifAssert(err == nil && ok, "Value: exists")
	verifAssert(got == v, "Value: reads the value written")
}

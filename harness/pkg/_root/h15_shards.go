package pilosa

import (
	"context"

	"github.com/pilosa/pilosa/pql"
	"github.com/pilosa/pilosa/stats"
)

// H15c: data straddling a shard boundary. The per-shard executor entry point
// runs on shard 0 and shard 1 and the results are merged the way
// executeBitmapCall's reducer does (Row.Merge). Columns are chosen at the
// shard edge (last column of shard 0, first of shard 1) or free inside shard 0.

func verifEdgeCol() uint64 {
	switch verifChoice("edgecol", 3) {
	case 0:
		return ShardWidth - 1
	case 1:
		return ShardWidth
	}
	return uint64(verifU16("collo"))
}

func VerifH15Shards() {
	f0 := verifNewFragment(CacheTypeNone, 0)
	f1 := verifNewFragment(CacheTypeNone, 0)
	f1.shard = 1
	v := &view{index: "i", field: "f", name: viewStandard, fieldType: FieldTypeSet, cacheType: CacheTypeNone,
		fragments: map[uint64]*fragment{0: f0, 1: f1}, stats: stats.NopStatsClient}
	fld := &Field{index: "i", name: "f", viewMap: map[string]*view{viewStandard: v}, Stats: stats.NopStatsClient,
		options: FieldOptions{Type: FieldTypeSet}}
	idx := &Index{name: "i", fields: map[string]*Field{"f": fld}, Stats: stats.NopStatsClient}
	e := &executor{Holder: &Holder{indexes: map[string]*Index{"i": idx}, Stats: stats.NopStatsClient}}

	s := &verifBits{}
	nbits := verifBound("bits", 3)
	for i := 0; i < nbits; i++ {
		r := uint64(1 + verifChoice("bitrow", 2))
		c := verifEdgeCol()
		s.set(r, c)
		if c/ShardWidth == 0 {
			_, _ = f0.setBit(r, c)
		} else {
			_, _ = f1.setBit(r, c)
		}
	}
	r1, r2 := verifRowCall(1), verifRowCall(2)
	sh := &pql.Call{Name: "Shift", Args: map[string]interface{}{"n": int64(1)}, Children: []*pql.Call{r1}}
	x := verifEdgeCol()
	var call *pql.Call
	var want bool
	switch verifChoice("tree", verifBound("trees", 4)) {
	case 0:
		call, want = &pql.Call{Name: "Union", Children: []*pql.Call{r1, r2}}, verifOr(s.has(1, x), s.has(2, x))
	case 1:
		call, want = sh, verifAnd(x > 0, s.has(1, x-1))
	case 2:
		call, want = &pql.Call{Name: "Intersect", Children: []*pql.Call{sh, r2}}, verifAnd(verifAnd(x > 0, s.has(1, x-1)), s.has(2, x))
	default:
		call, want = &pql.Call{Name: "Difference", Children: []*pql.Call{r2, sh}}, verifAnd(s.has(2, x), !verifAnd(x > 0, s.has(1, x-1)))
	}
	// a value carried out of shard 0 by Shift is evaluated with shard 0 only
	verifClass("shift-shard-edge", x == ShardWidth)
	res := NewRow()
	for shard := uint64(0); shard < 2; shard++ {
		row, err := e.executeBitmapCallShard(context.Background(), "i", call, shard)
		verifAssert(err == nil, "bitmap call on a shard: no error")
		if err != nil {
			return
		}
		res.Merge(row)
	}
	verifReach("both shards evaluated and merged")
	got := false
	for _, c := range res.Columns() {
		got = verifOr(got, c == x)
	}
	verifAssert(got == want, "merged per-shard results equal the set-algebra result")
}

package pilosa

// H13: mutex (and bool) fragments hold at most one row per column and it is
// the row of the last write; batches may repeat a column with conflicting
// rows and columns may already hold a value.

type verifMutexSpec struct {
	cols, rows []uint64
	live       []bool
}

func (s *verifMutexSpec) write(c, r uint64) {
	for i := range s.cols {
		s.live[i] = verifAnd(s.live[i], s.cols[i] != c)
	}
	s.cols = append(s.cols, c)
	s.rows = append(s.rows, r)
	s.live = append(s.live, true)
}

func (s *verifMutexSpec) clear(c, r uint64) {
	for i := range s.cols {
		s.live[i] = verifAnd(s.live[i], !verifAnd(s.cols[i] == c, s.rows[i] == r))
	}
}

func (s *verifMutexSpec) has(c, r uint64) bool {
	x := false
	for i := range s.cols {
		x = verifOr(x, verifAnd(s.live[i], verifAnd(s.cols[i] == c, s.rows[i] == r)))
	}
	return x
}

func verifMutexHistory(boolField bool) {
	f := verifNewFragment(CacheTypeNone, 2)
	nrows := uint64(3)
	if boolField {
		f.mutexVector = newBoolVector(f)
		nrows = 2
	} else {
		f.mutexVector = newRowsVector(f)
	}
	// two hot columns with free low bits (they may coincide)
	hot := []uint64{uint64(verifU16("col")), uint64(verifU16("col"))}
	col := func() uint64 { return hot[verifChoice("colidx", 2)] }
	row := func() uint64 { return uint64(verifChoice("rowidx", int(nrows))) }
	s := &verifMutexSpec{}
	steps := verifBound("steps", 2)
	for i := 0; i < steps; i++ {
		switch verifChoice("op", verifBound("ops", 3)) {
		case 0:
			c, r := col(), row()
			s.write(c, r)
			_, err := f.setBit(r, c)
			verifAssert(err == nil, "setBit: no error")
		case 1:
			n := 1 + verifChoice("batch", verifBound("batch", 2))
			rs := make([]uint64, n)
			cs := make([]uint64, n)
			for k := 0; k < n; k++ {
				cs[k], rs[k] = col(), row()
				s.write(cs[k], rs[k])
			}
			err := f.bulkImport(rs, cs, &ImportOptions{})
			verifAssert(err == nil, "bulkImport: no error")
		case 2:
			c, r := col(), row()
			s.clear(c, r)
			_, err := f.clearBit(r, c)
			verifAssert(err == nil, "clearBit: no error")
		}
	}
	verifReach("mutex history done")
	c := col()
	n := 0
	for r := uint64(0); r < nrows; r++ {
		b, err := f.bit(r, c)
		verifAssert(err == nil, "bit: no error")
		verifAssert(b == s.has(c, r), "column holds exactly the row of the last write")
		n += verifIteInt(b, 1, 0)
	}
	verifAssert(n <= 1, "at most one row per column")
}

func VerifH13Mutex() { verifMutexHistory(false) }
func VerifH13Bool()  { verifMutexHistory(true) }

// H13c: a larger batch (beyond the sizes where sorting / batching code paths
// are trivially order-preserving): filler entries on distinct columns plus
// two conflicting writes to one hot column at chosen positions. The later
// entry wins, the fillers are all present, every column holds one row.
func VerifH13BigBatch() {
	f := verifNewFragment(CacheTypeNone, 2)
	if verifChoice("bool", 2) == 1 {
		f.mutexVector = newBoolVector(f)
	} else {
		f.mutexVector = newRowsVector(f)
	}
	n := verifBound("bigbatch", 16)
	hot := uint64(verifU16("col"))
	verifAssume(hot < 1000)
	if verifChoice("existing", 2) == 1 {
		_, _ = f.setBit(uint64(verifChoice("existing.row", 2)), hot)
	}
	p1 := []int{0, n / 2}[verifChoice("first", 2)]
	p2 := []int{n/2 + 1, n - 1}[verifChoice("second", 2)]
	r1 := uint64(verifChoice("row1", 2))
	r2 := 1 - r1
	rs := make([]uint64, n)
	cs := make([]uint64, n)
	for i := 0; i < n; i++ {
		// fillers: distinct columns above the hot one, descending so that the
		// batch is not already ordered by column
		cs[i], rs[i] = uint64(2000+n-i), uint64(i%2)
	}
	cs[p1], rs[p1] = hot, r1
	cs[p2], rs[p2] = hot, r2
	// the import may reorder its argument slices
	err := f.bulkImport(append([]uint64{}, rs...), append([]uint64{}, cs...), &ImportOptions{})
	verifReach("big batch imported")
	verifAssert(err == nil, "bulkImport: no error")
	b1, _ := f.bit(r1, hot)
	b2, _ := f.bit(r2, hot)
	verifAssert(verifAnd(b2, !b1), "the last write to a repeated column wins in a large batch")
	k := verifChoice("filler", n)
	if k != p1 && k != p2 {
		bk, _ := f.bit(rs[k], cs[k])
		bo, _ := f.bit(1-rs[k], cs[k])
		verifAssert(verifAnd(bk, !bo), "filler columns hold exactly their row")
	}
}

// H13d: a batch made of several rounds over the same columns (every column
// repeated once per round, rows changing per round): the row of the last
// round wins for every column.
func VerifH13Rounds() {
	f := verifNewFragment(CacheTypeNone, 2)
	nrows := 3
	if verifChoice("bool", 2) == 1 {
		f.mutexVector = newBoolVector(f)
		nrows = 2
	} else {
		f.mutexVector = newRowsVector(f)
	}
	rounds := 2 + verifChoice("rounds", verifBound("rounds", 3))
	ncols := verifBound("roundcols", 5) + verifChoice("morecols", 3)
	base := uint64(verifU16("base"))
	shift := verifChoice("shift", nrows)
	var rs, cs []uint64
	for r := 0; r < rounds; r++ {
		for c := 0; c < ncols; c++ {
			rs = append(rs, uint64((r+shift)%nrows))
			cs = append(cs, base+uint64(c)*3)
		}
	}
	err := f.bulkImport(append([]uint64{}, rs...), append([]uint64{}, cs...), &ImportOptions{})
	verifReach("rounds imported")
	verifAssert(err == nil, "bulkImport: no error")
	last := uint64((rounds - 1 + shift) % nrows)
	c := base + uint64(verifChoice("probe", ncols))*3
	for r := uint64(0); r < uint64(nrows); r++ {
		b, _ := f.bit(r, c)
		verifAssert(b == (r == last), "every column holds exactly the row of the last round")
	}
}

package pilosa

// H13: mutex (and bool) fragments hold at most one row per column and it is
// the row of the last write; batches may repeat a column with conflicting
// rows and columns may already hold a value.

type verifMutexSpec struct {
	cols, rows []uint64
	live       []bool
}

func (s *verifMutexSpec) write(c, r uint64) {
	for i := range s.cols {
		s.live[i] = verifAnd(s.live[i], s.cols[i] != c)
	}
	s.cols = append(s.cols, c)
	s.rows = append(s.rows, r)
	s.live = append(s.live, true)
}

func (s *verifMutexSpec) clear(c, r uint64) {
	for i := range s.cols {
		s.live[i] = verifAnd(s.live[i], !verifAnd(s.cols[i] == c, s.rows[i] == r))
	}
}

func (s *verifMutexSpec) has(c, r uint64) bool {
	x := false
	for i := range s.cols {
		x = verifOr(x, verifAnd(s.live[i], verifAnd(s.cols[i] == c, s.rows[i] == r)))
	}
	return x
}

func verifMutexHistory(boolField bool) {
	f := verifNewFragment(CacheTypeNone, 2)
	nrows := uint64(3)
	if boolField {
		f.mutexVector = newBoolVector(f)
		nrows = 2
	} else {
		f.mutexVector = newRowsVector(f)
	}
	// two hot columns with free low bits (they may coincide)
	hot := []uint64{uint64(verifU16("col")), uint64(verifU16("col"))}
	col := func() uint64 { return hot[verifChoice("colidx", 2)] }
	row := func() uint64 { return uint64(verifChoice("rowidx", int(nrows))) }
	s := &verifMutexSpec{}
	steps := verifBound("steps", 2)
	for i := 0; i < steps; i++ {
		switch verifChoice("op", verifBound("ops", 3)) {
		case 0:
			c, r := col(), row()
			s.write(c, r)
			_, err := f.setBit(r, c)
			verifAssert(err == nil, "setBit: no error")
		case 1:
			n := 1 + verifChoice("batch", verifBound("batch", 2))
			rs := make([]uint64, n)
			cs := make([]uint64, n)
			for k := 0; k < n; k++ {
				cs[k], rs[k] = col(), row()
				s.write(cs[k], rs[k])
			}
			err := f.bulkImport(rs, cs, &ImportOptions{})
			verifAssert(err == nil, "bulkImport: no error")
		case 2:
			c, r := col(), row()
			s.clear(c, r)
			_, err := f.clearBit(r, c)
			verifAssert(err == nil, "clearBit: no error")
		}
	}
	verifReach("mutex history done")
	c := col()
	n := 0
	for r := uint64(0); r < nrows; r++ {
		b, err := f.bit(r, c)
		verifAssert(err == nil, "bit: no error")
		verifAssert(b == s.has(c, r), "column holds exactly the row of the last write")
		n += verifIteInt(b, 1, 0)
	}
	verifAssert(n <= 1, "at most one row per column")
}

func VerifH13Mutex() { verifMutexHistory(false) }
func VerifH13Bool()  { verifMutexHistory(true) }

package pilosa

// H11a: fragment.mergeBlock computes the per-bit majority (ties resolve to
// set), applies it locally and returns, for every remote replica, exactly the
// sets and clears that bring that replica to the majority.

func verifPairSetHas(p pairSet, r, c uint64) bool {
	x := false
	for i := range p.rowIDs {
		x = verifOr(x, verifAnd(p.rowIDs[i] == r, p.columnIDs[i] == c))
	}
	return x
}

// verifSortedPairs returns n strictly ascending (row, column) pairs in block 0.
func verifSortedPairs(tag string, n int) pairSet {
	var p pairSet
	for i := 0; i < n; i++ {
		r, c := verifRow(), verifCol()
		if i > 0 {
			pr, pc := p.rowIDs[i-1], p.columnIDs[i-1]
			verifAssume(verifOr(pr < r, verifAnd(pr == r, pc < c)))
		}
		p.rowIDs = append(p.rowIDs, r)
		p.columnIDs = append(p.columnIDs, c)
	}
	return p
}

func VerifH11MergeBlock() {
	f := verifNewFragment(CacheTypeNone, 2)
	local := &verifBits{}
	nl := verifChoice("nlocal", verifBound("local", 2)+1)
	for i := 0; i < nl; i++ {
		r, c := verifRow(), verifCol()
		local.set(r, c)
		_, err := f.setBit(r, c)
		verifAssert(err == nil, "setBit: no error")
	}
	nr := 1 + verifChoice("replicas", verifBound("remotes", 2))
	data := make([]pairSet, nr)
	for i := range data {
		data[i] = verifSortedPairs("remote", verifChoice("npairs", verifBound("pairs", 2)+1))
	}
	// probe bit
	pr, pc := verifRow(), verifCol()
	inLocal := local.has(pr, pc)
	votes := verifIteInt(inLocal, 1, 0)
	in := make([]bool, nr)
	for i := range data {
		in[i] = verifPairSetHas(data[i], pr, pc)
		votes += verifIteInt(in[i], 1, 0)
	}
	n := nr + 1
	majority := votes >= (n+1)/2

	sets, clears, err := f.mergeBlock(0, data)
	verifReach("mergeBlock returned")
	verifAssert(err == nil, "mergeBlock: no error")
	verifAssert(len(sets) == nr, "one set diff per remote replica")
	verifAssert(len(clears) == nr, "one clear diff per remote replica")
	b, _ := f.bit(pr, pc)
	verifAssert(b == majority, "local replica holds the majority value")
	for i := 0; i < nr && i < len(sets) && i < len(clears); i++ {
		verifAssert(verifPairSetHas(sets[i], pr, pc) == verifAnd(majority, !in[i]), "remote sets = majority minus replica")
		verifAssert(verifPairSetHas(clears[i], pr, pc) == verifAnd(!majority, in[i]), "remote clears = replica minus majority")
		verifAssert(len(clears[i].rowIDs) == len(clears[i].columnIDs), "clear diff is well formed")
	}
}

package pilosa

import "github.com/pilosa/pilosa/roaring"

// H20: shard ownership with an uninterpreted hasher and symbolic node IDs.

// verifHasher is the Hasher stub: an uninterpreted function of (key, n)
// reduced into [0,n). Every placement the real jump hash could produce (and
// more) is covered.
type verifHasher struct{}

func (verifHasher) Hash(key uint64, n int) int {
	// an arbitrary function into [0,n): constrain the uninterpreted value
	// instead of reducing it (64-bit division by 3 is needlessly hard to decide)
	h := verifUF("hash", key, uint64(n))
	if verifNative() {
		return int(h % uint64(n)) // applications outside the model
	}
	verifAssume(h < uint64(n))
	return int(h)
}

// verifNodeIDs returns n distinct symbolic 1-byte node IDs.
func verifNodeIDs(n int) []string {
	ids := make([]string, n)
	bs := make([]byte, n)
	for i := range ids {
		bs[i] = verifU8("id")
		for j := 0; j < i; j++ {
			verifAssume(bs[i] != bs[j])
		}
		ids[i] = string([]byte{bs[i]})
	}
	return ids
}

func verifCluster(ids []string, order []int, replicaN int) *cluster {
	c := &cluster{partitionN: defaultPartitionN, ReplicaN: replicaN, Hasher: verifHasher{}}
	for _, k := range order {
		c.addNodeBasicSorted(&Node{ID: ids[k]})
	}
	return c
}

func VerifH20Owners() {
	n := 1 + verifChoice("nodes", verifBound("nodes", 3))
	ids := verifNodeIDs(n)
	replicaN := verifChoice("replicas", verifBound("replicas", 4)+1)
	fwd := make([]int, n)
	rev := make([]int, n)
	for i := range fwd {
		fwd[i] = i
		rev[i] = n - 1 - i
	}
	c1 := verifCluster(ids, fwd, replicaN)
	c2 := verifCluster(ids, rev, replicaN)

	// member list strictly ascending by ID whatever the join order
	sorted := true
	for i := 1; i < len(c1.nodes); i++ {
		sorted = verifAnd(sorted, c1.nodes[i-1].ID < c1.nodes[i].ID)
	}
	verifAssert(verifAnd(sorted, len(c1.nodes) == n), "nodes sorted by ID")

	p := int(verifU8("partition"))
	o1 := c1.partitionNodes(p)
	o2 := c2.partitionNodes(p)
	want := replicaN
	if want < 1 {
		want = 1
	}
	if want > n {
		want = n
	}
	verifReach("owners computed")
	verifAssert(len(o1) == want, "owner count = min(max(replicas,1), nodes)")
	distinct := true
	for i := range o1 {
		for j := i + 1; j < len(o1); j++ {
			distinct = verifAnd(distinct, o1[i].ID != o1[j].ID)
		}
	}
	verifAssert(distinct, "owners pairwise distinct")
	same := len(o1) == len(o2)
	if same {
		for i := range o1 {
			same = verifAnd(same, o1[i].ID == o2[i].ID)
		}
	}
	verifAssert(same, "owners independent of join order")
}

func VerifH20OwnsShard() {
	n := 1 + verifChoice("nodes", verifBound("nodes", 3))
	ids := verifNodeIDs(n)
	replicaN := verifChoice("replicas", verifBound("replicas", 4)+1)
	order := make([]int, n)
	for i := range order {
		order[i] = i
	}
	c := verifCluster(ids, order, replicaN)
	// the shard only selects the partition fed to the hasher: a few concrete shards
	shard := uint64(verifChoice("shard", 3)) * 7
	owners := c.shardNodes("i", shard)
	k := verifChoice("node", n)
	member := false
	for i := range owners {
		member = verifOr(member, owners[i].ID == ids[k])
	}
	verifReach("ownsShard")
	verifAssert(c.ownsShard(ids[k], "i", shard) == member, "ownsShard iff member of shardNodes")
	// containsShards agrees (cleanup uses it)
	avail := roaring.NewBitmap()
	avail.DirectAdd(shard)
	got := c.containsShards("i", avail, &Node{ID: ids[k]})
	verifAssert((len(got) > 0) == member, "containsShards iff member of shardNodes")
}

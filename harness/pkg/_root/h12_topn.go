package pilosa

// H12: every count TopN reports for explicitly requested rows equals the
// number of columns set in that row (restricted to the filter row), whatever
// write paths ran before and whatever the count cache holds.
func VerifH12TopIDs() {
	ct := []string{CacheTypeRanked, CacheTypeLRU}[verifChoice("cache", verifBound("caches", 2))]
	f := verifNewFragment(ct, uint32(1+verifChoice("cachesize", verifBound("cachesizes", 1))))
	s := &verifBits{}
	steps := verifBound("steps", 2)
	for i := 0; i < steps; i++ {
		verifFragmentStep(f, s, verifBound("ops", 9))
	}
	r := verifRow()
	opt := topOptions{RowIDs: []uint64{r}}
	want := s.rowCount(r)
	if verifChoice("filter", verifBound("filters", 2)) == 1 {
		c := verifCol()
		opt.Src = NewRow(c)
		want = verifIteU64(s.has(r, c), 1, 0)
	}
	pairs, err := f.top(opt)
	verifReach("top returned")
	verifAssert(err == nil, "top: no error")
	// exactly one pair for a non-empty row, none for an empty one
	verifAssert((len(pairs) == 1) == (want > 0), "top(ids): the row is reported iff it has matching columns")
	if len(pairs) == 1 {
		verifAssert(pairs[0].ID == r, "top(ids): reports the requested row")
		verifAssert(pairs[0].Count == want, "top(ids): count equals the number of columns set")
	}
	verifAssert(len(pairs) <= 1, "top(ids): no extra rows")
}

// H12b: TopN(n) without ids on a fragment whose rows fit in the ranked cache:
// after a recalculation it returns min(n, non-empty rows) rows, the largest
// counts first, with exact counts - also when the cache is exactly full and
// counts went down after an earlier recalculation.
func VerifH12TopN() {
	size := 2 + verifChoice("cachesize", 2) // 2 or 3 rows fit
	f := verifNewFragment(CacheTypeRanked, uint32(size))
	// rows 0..size-1 with concrete columns 0..k-1 (k chosen per row)
	counts := make([]int, size)
	var rs, cs []uint64
	for r := 0; r < size; r++ {
		counts[r] = 1 + verifChoice("count", 3)
		for c := 0; c < counts[r]; c++ {
			rs, cs = append(rs, uint64(r)), append(cs, uint64(c))
		}
	}
	// one import: the cache's time-based throttle is consulted once
	_ = f.bulkImport(rs, cs, &ImportOptions{})
	f.RecalculateCache()
	// some writes after the first recalculation
	steps := verifBound("steps", 1)
	for i := 0; i < steps; i++ {
		r := verifChoice("row", size)
		switch verifChoice("op", 3) {
		case 0:
			if counts[r] > 0 {
				counts[r]--
				_, _ = f.clearBit(uint64(r), uint64(counts[r]))
			}
		case 1:
			_, _ = f.setBit(uint64(r), uint64(counts[r]))
			counts[r]++
		}
	}
	f.RecalculateCache()
	n := 1 + verifChoice("n", size)
	pairs, err := f.top(topOptions{N: n})
	verifReach("topn returned")
	verifAssert(err == nil, "top(n): no error")
	nonEmpty := 0
	for _, c := range counts {
		if c > 0 {
			nonEmpty++
		}
	}
	want := n
	if nonEmpty < want {
		want = nonEmpty
	}
	verifAssert(len(pairs) == want, "top(n): min(n, non-empty rows) rows")
	for i, p := range pairs {
		verifAssert(p.ID < uint64(size) && p.Count == uint64(counts[p.ID]), "top(n): exact counts")
		if i > 0 {
			verifAssert(pairs[i-1].Count >= p.Count, "top(n): non-increasing counts")
		}
		// no row left out has a larger count
		for r, c := range counts {
			listed := false
			for _, q := range pairs {
				listed = listed || q.ID == uint64(r)
			}
			if !listed {
				verifAssert(uint64(c) <= p.Count, "top(n): the largest counts are returned")
			}
		}
	}
}

package pilosa

// H12: every count TopN reports for explicitly requested rows equals the
// number of columns set in that row (restricted to the filter row), whatever
// write paths ran before and whatever the count cache holds.
func VerifH12TopIDs() {
	ct := []string{CacheTypeRanked, CacheTypeLRU}[verifChoice("cache", verifBound("caches", 2))]
	f := verifNewFragment(ct, uint32(1+verifChoice("cachesize", verifBound("cachesizes", 1))))
	s := &verifBits{}
	steps := verifBound("steps", 2)
	for i := 0; i < steps; i++ {
		verifFragmentStep(f, s, verifBound("ops", 9))
	}
	r := verifRow()
	opt := topOptions{RowIDs: []uint64{r}}
	want := s.rowCount(r)
	if verifChoice("filter", verifBound("filters", 2)) == 1 {
		c := verifCol()
		opt.Src = NewRow(c)
		want = verifIteU64(s.has(r, c), 1, 0)
	}
	pairs, err := f.top(opt)
	verifReach("top returned")
	verifAssert(err == nil, "top: no error")
	// exactly one pair for a non-empty row, none for an empty one
	verifAssert((len(pairs) == 1) == (want > 0), "top(ids): the row is reported iff it has matching columns")
	if len(pairs) == 1 {
		verifAssert(pairs[0].ID == r, "top(ids): reports the requested row")
		verifAssert(pairs[0].Count == want, "top(ids): count equals the number of columns set")
	}
	verifAssert(len(pairs) <= 1, "top(ids): no extra rows")
}

package pilosa

import (
	"context"

	"github.com/pilosa/pilosa/pql"
	"github.com/pilosa/pilosa/stats"
)

// H15 (partial): bitmap call trees evaluated by the real per-shard executor
// entry point equal the set-algebra result over the stored column sets; Not
// is relative to the existence row. mapReduce fan-out over shards/nodes is
// outside (its reducers are in C17).

func verifSetField(name string, frag *fragment) *Field {
	v := &view{index: "i", field: name, name: viewStandard, fieldType: FieldTypeSet, cacheType: CacheTypeNone,
		fragments: map[uint64]*fragment{0: frag}, stats: stats.NopStatsClient}
	return &Field{index: "i", name: name, viewMap: map[string]*view{viewStandard: v}, Stats: stats.NopStatsClient,
		options: FieldOptions{Type: FieldTypeSet}}
}

func verifRowCall(row int64) *pql.Call {
	return &pql.Call{Name: "Row", Args: map[string]interface{}{"f": row}}
}

func VerifH15Algebra() {
	frag := verifNewFragment(CacheTypeNone, 0)
	efrag := verifNewFragment(CacheTypeNone, 0)
	fld := verifSetField("f", frag)
	efld := verifSetField(existenceFieldName, efrag)
	idx := &Index{name: "i", fields: map[string]*Field{"f": fld, existenceFieldName: efld}, trackExistence: true, existenceFld: efld, Stats: stats.NopStatsClient}
	e := &executor{Holder: &Holder{indexes: map[string]*Index{"i": idx}, Stats: stats.NopStatsClient}}

	// rows 1 and 2 with up to two columns each; every written column exists
	s := &verifBits{}
	ex := &verifBits{}
	nbits := verifBound("bits", 3)
	for i := 0; i < nbits; i++ {
		mode := verifChoice("bit", 3) // 0: none, 1: row 1, 2: row 2
		if mode == 0 {
			continue
		}
		c := verifCol()
		s.set(uint64(mode), c)
		ex.set(0, c)
		_, _ = frag.setBit(uint64(mode), c)
		_, _ = efrag.setBit(0, c)
	}
	// a column that exists without being in row 1 or 2
	if verifChoice("extra", 2) == 1 {
		c := verifCol()
		ex.set(0, c)
		_, _ = efrag.setBit(0, c)
	}
	r1, r2 := verifRowCall(1), verifRowCall(2)
	x := verifCol()
	a, b, exists := s.has(1, x), s.has(2, x), ex.has(0, x)
	var call *pql.Call
	var want bool
	switch verifChoice("tree", verifBound("trees", 9)) {
	case 0:
		call, want = r1, a
	case 1:
		call, want = &pql.Call{Name: "Union", Children: []*pql.Call{r1, r2}}, verifOr(a, b)
	case 2:
		call, want = &pql.Call{Name: "Intersect", Children: []*pql.Call{r1, r2}}, verifAnd(a, b)
	case 3:
		call, want = &pql.Call{Name: "Difference", Children: []*pql.Call{r1, r2}}, verifAnd(a, !b)
	case 4:
		call, want = &pql.Call{Name: "Xor", Children: []*pql.Call{r1, r2}}, a != b
	case 5:
		call, want = &pql.Call{Name: "Not", Children: []*pql.Call{r1}}, verifAnd(exists, !a)
	case 6:
		not2 := &pql.Call{Name: "Not", Children: []*pql.Call{r2}}
		call, want = &pql.Call{Name: "Intersect", Children: []*pql.Call{r1, not2}}, verifAnd(a, verifAnd(exists, !b))
	case 7:
		inter := &pql.Call{Name: "Intersect", Children: []*pql.Call{r1, r2}}
		call, want = &pql.Call{Name: "Union", Children: []*pql.Call{inter, &pql.Call{Name: "Difference", Children: []*pql.Call{r2, r1}}}}, b
	default:
		un := &pql.Call{Name: "Union", Children: []*pql.Call{r1, r2}}
		call, want = &pql.Call{Name: "Not", Children: []*pql.Call{un}}, verifAnd(exists, !verifOr(a, b))
	}
	row, err := e.executeBitmapCallShard(context.Background(), "i", call, 0)
	verifReach("bitmap call executed")
	verifAssert(err == nil, "bitmap call: no error")
	verifAssert(verifRowHas(row, x) == want, "bitmap call result equals the set-algebra result")
	// sources unchanged by evaluating the query (C03 for query results)
	b1, _ := frag.bit(1, x)
	verifAssert(b1 == a, "stored row unchanged by the query")
}

package pilosa

import (
	"bufio"
	"os"
	"syscall"

	"github.com/pilosa/pilosa/logger"
)

// H09c: process-kill model for the key-translation log. The store is opened
// the way TranslateFile.Open does (append-mode file, buffered writer, mapping
// of the file, replayEntries) on the in-memory file system, except that the
// write buffer is 16 bytes instead of 4096 (so that an entry larger than the
// buffer - several write syscalls per append - fits the bounds) and that the
// writer records the end offset of every write syscall. After one or two
// acknowledged batches the process dies after an arbitrary completed write;
// the file as it then is gets reopened with the real replayEntries.

// a long index name, so that one log entry exceeds the 16-byte write buffer
// and an append takes several write syscalls
var verifCrashIndex = "index-of-the-crash-model"

type verifCutFile struct {
	f    *os.File
	n    int64
	cuts []int64
}

func (w *verifCutFile) Write(p []byte) (int, error) {
	n, err := w.f.Write(p)
	w.n += int64(n)
	w.cuts = append(w.cuts, w.n)
	return n, err
}

func verifOpenTranslate(path string) (*TranslateFile, *verifCutFile, error) {
	s := &TranslateFile{
		Path: path, mapSize: 4096,
		cols: make(map[string]*index), rows: make(map[fieldKey]*index),
		writeNotify: make(chan struct{}), closing: make(chan struct{}),
		logger: logger.NopLogger,
	}
	var err error
	if s.file, err = os.OpenFile(path, os.O_RDWR|os.O_CREATE|os.O_APPEND, 0666); err != nil {
		return nil, nil, err
	}
	cw := &verifCutFile{f: s.file}
	s.w = bufio.NewWriterSize(cw, 16)
	s.n = 0
	if s.data, err = syscall.Mmap(int(s.file.Fd()), 0, s.mapSize, syscall.PROT_READ, syscall.MAP_SHARED); err != nil {
		return nil, nil, err
	}
	return s, cw, s.replayEntries()
}

func VerifH09TranslateCrash() {
	dir := verifTempDir()
	defer verifCleanTemp(dir)
	_ = os.MkdirAll(dir, 0777)
	// the first write of an append ends 16 bytes into the entry (the rest goes
	// out in one more write); the index name's length (8..15) moves that cut
	// over the entry's item boundaries (before the field name, the key count,
	// an id, a key length, the key bytes) and into the middle of items
	verifCrashIndex = "index-of-the-crash-model"[:8+verifChoice("pad", verifBound("pads", 8))]
	s, cw, err := verifOpenTranslate(dir + "/keys")
	verifAssert(err == nil, "translate store opens")
	if err != nil {
		return
	}
	nb := 1 + verifChoice("batches", verifBound("batches", 2))
	var keys []string
	var ids []uint64
	var acked []int64 // file length when the key's batch was acknowledged
	for b := 0; b < nb; b++ {
		nk := 1 + verifChoice("nkeys", verifBound("keys", 2))
		batch := make([]string, nk)
		for i := range batch {
			batch[i] = verifKey()
		}
		got, err := s.TranslateColumnsToUint64(verifCrashIndex, batch)
		verifAssert(err == nil, "translate batch: no error")
		if err != nil {
			return
		}
		for i := range batch {
			keys = append(keys, batch[i])
			ids = append(ids, got[i])
			acked = append(acked, cw.n)
		}
	}
	verifReach("batches acknowledged")

	// kill after an arbitrary completed write: the file is a prefix
	cuts := append([]int64{0}, cw.cuts...)
	cut := cuts[verifChoice("kill", len(cuts))]
	data, _ := os.ReadFile(dir + "/keys")
	_ = os.WriteFile(dir+"/keys2", data[:cut], 0666)

	s2, _, err := verifOpenTranslate(dir + "/keys2")
	verifAssert(err == nil, "restart after a kill between writes succeeds")
	if err != nil {
		return
	}
	for i := range keys {
		if acked[i] <= cut {
			got, err := s2.TranslateColumnsToUint64(verifCrashIndex, []string{keys[i]})
			verifAssert(err == nil, "recovered store: no error")
			verifAssert(len(got) == 1 && got[0] == ids[i], "every acknowledged key keeps its ID after restart")
		}
	}
	// the recovered store keeps working: a new key is stored and read back
	nk := verifKey()
	fresh := true
	for i := range keys {
		fresh = verifAnd(fresh, nk != keys[i])
	}
	verifAssume(fresh)
	got, err := s2.TranslateColumnsToUint64(verifCrashIndex, []string{nk})
	verifAssert(err == nil, "new key after restart: no error")
	if err != nil {
		return
	}
	back, err := s2.TranslateColumnToString(verifCrashIndex, got[0])
	verifAssert(err == nil && back == nk, "new key after restart reads back")
	for i := range keys {
		if acked[i] <= cut {
			verifAssert(got[0] != ids[i], "new key after restart gets an unused ID")
			k, err := s2.TranslateColumnToString(verifCrashIndex, ids[i])
			verifAssert(err == nil && k == keys[i], "acknowledged IDs still read back their key")
		}
	}
}

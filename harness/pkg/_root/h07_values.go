package pilosa

// H07c: integer (BSI) fragments: every read reflects all completed value
// writes, whether they went through setValue or the bulk importValue path,
// including rows read (and cached) before the write. Rows: 0 exists, 1 sign,
// 2+i magnitude bit i.

func VerifH07Values() {
	f := verifNewFragment(CacheTypeNone, 0)
	depth := uint(verifBound("depth", 2))
	hot := []uint64{uint64(verifU16("col")), uint64(verifU16("col"))}
	verifAssume(hot[0] != hot[1])
	exists := []bool{false, false}
	vals := []int64{0, 0}
	value := func() int64 {
		lim := 1<<depth - 1
		return int64(verifChoice("value", 2*lim+1)) - int64(lim)
	}
	bitOf := func(k int, r uint64) bool {
		if !exists[k] {
			return false
		}
		switch r {
		case 0:
			return true
		case 1:
			return vals[k] < 0
		}
		m := vals[k]
		if m < 0 {
			m = -m
		}
		return m>>(r-2)&1 == 1
	}
	steps := verifBound("steps", 2)
	for i := 0; i < steps; i++ {
		switch verifChoice("op", verifBound("ops", 4)) {
		case 0:
			k, v := verifChoice("colidx", 2), value()
			_, err := f.setValue(hot[k], depth, v)
			verifAssert(err == nil, "setValue: no error")
			exists[k], vals[k] = true, v
		case 1:
			k, v := verifChoice("colidx", 2), value()
			err := f.importValue([]uint64{hot[k]}, []int64{v}, depth, false)
			verifAssert(err == nil, "importValue: no error")
			exists[k], vals[k] = true, v
		case 2:
			// a read mid-history fills the row cache
			k, r := verifChoice("colidx", 2), uint64(verifChoice("row", int(depth)+2))
			// magnitude/sign rows of a column without a value are don't-care
			verifAssert(verifOr(r > 0 && !exists[k], verifRowHas(f.row(r), hot[k]) == bitOf(k, r)), "row(): membership mid-history")
		case 3:
			k := verifChoice("colidx", 2)
			err := f.importValue([]uint64{hot[k]}, []int64{vals[k]}, depth, true)
			verifAssert(err == nil, "importValue(clear): no error")
			exists[k], vals[k] = false, 0
		}
	}
	verifReach("value history done")
	k := verifChoice("probe", 2)
	v, ok, err := f.value(hot[k], depth)
	verifAssert(err == nil, "value: no error")
	verifAssert(ok == exists[k], "value(): existence agrees with history")
	verifAssert(!ok || v == vals[k], "value(): reads the last value written")
	r := uint64(verifChoice("proberow", int(depth)+2))
	verifAssert(verifOr(r > 0 && !exists[k], verifRowHas(f.row(r), hot[k]) == bitOf(k, r)), "row(): membership after history")
}

package pilosa

import (
	"context"

	"github.com/pilosa/pilosa/pql"
	"github.com/pilosa/pilosa/stats"
)

// H03b: query results are isolated from each other and from the fragments'
// cached rows: a row returned by a time-range query keeps its contents when
// other queries run afterwards, and a later narrower query is not affected by
// an earlier wider one (no write in between).

func VerifH03TimeRangeResults() {
	q := []string{"YMD", "D", "YMDH"}[verifChoice("quantum", verifBound("quanta", 2))]
	fld := &Field{index: "i", name: "f", viewMap: map[string]*view{}, Stats: stats.NopStatsClient,
		options: FieldOptions{Type: FieldTypeTime, TimeQuantum: TimeQuantum(q)}}
	std := verifTimeView(fld, viewStandard)
	idx := &Index{name: "i", fields: map[string]*Field{"f": fld}, Stats: stats.NopStatsClient}
	e := &executor{Holder: &Holder{indexes: map[string]*Index{"i": idx}, Stats: stats.NopStatsClient}}
	// day 1 holds column c1, day 2 holds column c2 (same row)
	c1, c2 := uint64(verifU16("col")), uint64(verifU16("col"))
	verifAssume(c1 != c2)
	row := uint64(1)
	for i, c := range []uint64{c1, c2} {
		inst := [][4]string{verifInstants[1], verifInstants[3]}[i]
		for _, name := range verifViewNames(inst, q) {
			_, _ = verifTimeView(fld, name).fragments[0].setBit(row, c)
		}
		_, _ = std.fragments[0].setBit(row, c)
	}
	mk := func(from, to string) *pql.Call {
		return &pql.Call{Name: "Row", Args: map[string]interface{}{"f": row, "from": from, "to": to}}
	}
	narrow := mk("2019-01-01T00:00", "2019-01-02T00:00")
	wide := mk("2019-01-01T00:00", "2019-01-03T00:00")
	first := verifChoice("first", 2) // which query runs first
	var r1 *Row
	var err error
	if first == 0 {
		r1, err = e.executeRowShard(context.Background(), "i", narrow, 0)
		verifAssert(err == nil, "narrow range: no error")
		verifAssert(verifRowHas(r1, c1) && !verifRowHas(r1, c2), "narrow range: exactly day 1")
	}
	rw, err := e.executeRowShard(context.Background(), "i", wide, 0)
	verifReach("wide range executed")
	verifAssert(err == nil, "wide range: no error")
	verifAssert(verifRowHas(rw, c1) && verifRowHas(rw, c2), "wide range: both days")
	if r1 != nil {
		verifAssert(verifRowHas(r1, c1) && !verifRowHas(r1, c2), "an earlier result is unchanged by a later query")
	}
	r2, err := e.executeRowShard(context.Background(), "i", narrow, 0)
	verifAssert(err == nil, "narrow range again: no error")
	verifAssert(verifRowHas(r2, c1) && !verifRowHas(r2, c2), "a narrower query after a wider one still returns exactly its range")
	// the fragments' own rows are unchanged as well
	for name, v := range fld.viewMap {
		if name == viewStandard {
			continue
		}
		fr := v.fragments[0]
		b1, _ := fr.bit(row, c1)
		b2, _ := fr.bit(row, c2)
		verifAssert(verifRowHas(fr.row(row), c1) == b1 && verifRowHas(fr.row(row), c2) == b2, "fragment rows unchanged by queries ("+name+")")
	}
}

package pilosa

import (
	"context"

	"github.com/pilosa/pilosa/pql"
	"github.com/pilosa/pilosa/stats"
)

// H16c: Rows on a time field with from/to (and limit) through the real
// executeRowsShard: the rows with a bit in some view of the range, ascending,
// distinct, the `limit` smallest. Two day-aligned instants; each holds one
// chosen row; quantum choice among those with a day unit.

func VerifH16RowsTime() {
	q := []string{"D", "YMD", "DH", "YMDH"}[verifChoice("quantum", verifBound("quanta", 2))]
	fld := &Field{index: "i", name: "f", viewMap: map[string]*view{}, Stats: stats.NopStatsClient,
		options: FieldOptions{Type: FieldTypeTime, TimeQuantum: TimeQuantum(q)}}
	std := verifTimeView(fld, viewStandard)
	idx := &Index{name: "i", fields: map[string]*Field{"f": fld}, Stats: stats.NopStatsClient}
	e := &executor{Holder: &Holder{indexes: map[string]*Index{"i": idx}, Stats: stats.NopStatsClient}}

	insts := [][4]string{verifInstants[1], verifInstants[3]} // 2019-01-01T00, 2019-01-02T00
	rowOf := make([]uint64, 2)
	col := uint64(verifU16("col"))
	for i, inst := range insts {
		rowOf[i] = []uint64{1, 2, 7}[verifChoice("row", 3)]
		for _, name := range verifViewNames(inst, q) {
			_, _ = verifTimeView(fld, name).fragments[0].setBit(rowOf[i], col)
		}
		_, _ = std.fragments[0].setBit(rowOf[i], col)
	}
	args := map[string]interface{}{"_field": "f"}
	lo, hi := 0, 2 // instants covered by the range
	switch verifChoice("range", 3) {
	case 0:
		args["from"], args["to"] = "2019-01-01T00:00", "2019-01-03T00:00"
	case 1:
		args["from"], args["to"] = "2019-01-01T00:00", "2019-01-02T00:00"
		hi = 1
	case 2:
		args["from"] = "2019-01-02T00:00" // open end: up to the last view
		lo = 1
	}
	limit := -1
	if verifChoice("haslimit", 2) == 1 {
		limit = 1
		args["limit"] = uint64(1)
	}
	got, err := e.executeRowsShard(context.Background(), "i", "f", &pql.Call{Name: "Rows", Args: args}, 0)
	verifReach("rows over a time range executed")
	verifAssert(err == nil, "Rows(from, to): no error")
	if err != nil {
		return
	}
	// expected: distinct rows of the covered instants, ascending, cut at limit
	var want []uint64
	for i := lo; i < hi; i++ {
		dup := false
		for _, w := range want {
			dup = dup || w == rowOf[i]
		}
		if !dup {
			want = append(want, rowOf[i])
		}
	}
	if len(want) == 2 && want[0] > want[1] {
		want[0], want[1] = want[1], want[0]
	}
	if limit >= 0 && len(want) > limit {
		want = want[:limit]
	}
	ok := len(got) == len(want)
	if ok {
		for i := range want {
			ok = ok && got[i] == want[i]
		}
	}
	verifAssert(ok, "Rows(from, to[, limit]): exactly the rows with a bit in the range, ascending, cut at limit")
}

package pilosa

import (
	"github.com/pilosa/pilosa/roaring"
	"github.com/pilosa/pilosa/stats"
)

// H21: the resize plan (cluster.fragSources) names, for every fragment a node
// of the target cluster newly owns, a source that owned it before and is not
// the node being removed; it is refused only when no such node exists.

func verifResizeIndex(shards []uint64) *Index {
	avail := roaring.NewBitmap()
	for _, s := range shards {
		avail.DirectAdd(s)
	}
	v := &view{index: "i", field: "f", name: viewStandard, fragments: map[uint64]*fragment{}, stats: stats.NopStatsClient}
	fld := &Field{index: "i", name: "f", viewMap: map[string]*view{viewStandard: v}, remoteAvailableShards: avail, Stats: stats.NopStatsClient}
	return &Index{name: "i", fields: map[string]*Field{"f": fld}, Stats: stats.NopStatsClient}
}

func verifOwns(c *cluster, id string, shard uint64) bool {
	x := false
	for _, n := range c.shardNodes("i", shard) {
		x = verifOr(x, n.ID == id)
	}
	return x
}

func VerifH21FragSources() {
	n := 2 + verifChoice("nodes", verifBound("nodes", 2))
	ids := verifNodeIDs(n + 1)
	replicaN := 1 + verifChoice("replicas", verifBound("replicas", 2))
	order := make([]int, n)
	for i := range order {
		order[i] = i
	}
	from := verifCluster(ids, order, replicaN)
	var to *cluster
	removed := ""
	if verifChoice("action", 2) == 0 {
		to = verifCluster(ids, append(append([]int{}, order...), n), replicaN)
	} else {
		k := verifChoice("removed", n)
		var rest []int
		for i := range order {
			if i != k {
				rest = append(rest, i)
			}
		}
		removed = ids[k]
		to = verifCluster(ids, rest, replicaN)
	}
	shards := []uint64{0, 1, 2}[:verifBound("shards", 2)]
	idx := verifResizeIndex(shards)
	m, err := from.fragSources(to, idx)
	verifReach("plan computed")

	// oracle
	impossible := false
	for _, t := range to.nodes {
		for _, s := range shards {
			needs := verifAnd(verifOwns(to, t.ID, s), !verifOwns(from, t.ID, s))
			hasSource := false
			for _, f := range from.nodes {
				hasSource = verifOr(hasSource, verifAnd(verifOwns(from, f.ID, s), f.ID != removed))
			}
			impossible = verifOr(impossible, verifAnd(needs, !hasSource))
			if err == nil {
				// the plan names a valid source for (t, s)
				named := false
				for _, src := range m[t.ID] {
					ok := verifAnd(src.Shard == s, verifAnd(src.Field == "f", src.View == viewStandard))
					ok = verifAnd(ok, verifAnd(src.Node != nil, verifAnd(verifOwns(from, src.Node.ID, s), src.Node.ID != removed)))
					named = verifOr(named, ok)
				}
				verifAssert(verifImplies(needs, named), "every newly owned fragment has a surviving previous owner as source")
			}
		}
	}
	if err != nil {
		verifAssert(impossible, "the plan is refused only when some fragment has no surviving source")
	} else {
		verifAssert(!impossible, "a plan is produced only when every fragment has a source")
	}
}

// H21b: the same through the coordinator's job generation
// (unprotectedGenerateResizeJobByAction), which builds the target cluster
// itself: the instructions of the job name a valid source for every fragment
// a node of the target membership newly owns.
func VerifH21Job() {
	n := 2 + verifChoice("nodes", verifBound("nodes", 2))
	ids := verifNodeIDs(n + 1)
	replicaN := 1 + verifChoice("replicas", verifBound("replicas", 2))
	order := make([]int, n)
	for i := range order {
		order[i] = i
	}
	from := verifCluster(ids, order, replicaN)
	from.Node = from.nodes[0]
	from.Coordinator = from.nodes[0].ID
	from.broadcaster = NopBroadcaster
	shards := []uint64{0, 1, 2}[:verifBound("shards", 2)]
	idx := verifResizeIndex(shards)
	from.holder = &Holder{indexes: map[string]*Index{"i": idx}, Stats: stats.NopStatsClient}

	var to *cluster
	var action nodeAction
	removed := ""
	if verifChoice("action", 2) == 0 {
		to = verifCluster(ids, append(append([]int{}, order...), n), replicaN)
		action = nodeAction{node: &Node{ID: ids[n]}, action: resizeJobActionAdd}
	} else {
		k := verifChoice("removed", n)
		var rest []int
		for i := range order {
			if i != k {
				rest = append(rest, i)
			}
		}
		removed = ids[k]
		to = verifCluster(ids, rest, replicaN)
		action = nodeAction{node: &Node{ID: ids[k]}, action: resizeJobActionRemove}
	}
	j, err := from.unprotectedGenerateResizeJobByAction(action)
	verifReach("job generated")
	if err != nil {
		return // refusal is judged by VerifH21FragSources
	}
	for _, t := range to.nodes {
		var srcs []*ResizeSource
		for _, instr := range j.Instructions {
			if instr.Node != nil && instr.Node.ID == t.ID {
				srcs = append(srcs, instr.Sources...)
			}
		}
		for _, s := range shards {
			needs := verifAnd(verifOwns(to, t.ID, s), !verifOwns(from, t.ID, s))
			named := false
			for _, src := range srcs {
				ok := verifAnd(src.Shard == s, verifAnd(src.Field == "f", src.View == viewStandard))
				ok = verifAnd(ok, verifAnd(src.Node != nil, verifAnd(verifOwns(from, src.Node.ID, s), src.Node.ID != removed)))
				named = verifOr(named, ok)
			}
			verifAssert(verifImplies(needs, named), "the job names a source for every fragment a target node newly owns")
		}
		if len(srcs) == 0 {
			verifAssert(j.IDs[t.ID], "a node with nothing to fetch is already marked complete")
		}
	}
}

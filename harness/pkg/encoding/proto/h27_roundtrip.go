package proto

import (
	"github.com/pilosa/pilosa"
)

// H27: internal messages survive Marshal -> Unmarshal unchanged. Shapes are
// concrete, scalars and string bytes symbolic. The pilosa encode*/decode*
// layer and the generated gogo Marshal/Unmarshal/Size code are executed.

func verifStr(tag string) string {
	n := verifChoice(tag+".len", verifBound("strlen", 1)+1)
	b := make([]byte, n)
	for i := range b {
		b[i] = verifU8(tag)
	}
	return string(b)
}

// verifVarU64: a symbolic integer inside one chosen varint size class, so
// that the encoder's length loop does not fork ten ways per value.
func verifVarU64(tag string) uint64 {
	switch verifChoice(tag+".class", verifBound("intclasses", 2)) {
	case 0:
		return uint64(verifU8(tag) & 0x7F) // 1-byte varint
	case 1:
		return uint64(1)<<63 | verifU64(tag)>>1 // 10-byte varint, top bit set
	default:
		return 1<<14 | uint64(verifU16(tag)&0x3FFF) // 3-byte varint
	}
}

func verifVarI64(tag string) int64 { return int64(verifVarU64(tag)) }

func verifU64s(tag string) []uint64 {
	n := verifChoice(tag+".n", verifBound("slice", 2)+1)
	if n == 0 {
		return nil
	}
	a := make([]uint64, n)
	for i := range a {
		a[i] = verifVarU64(tag)
	}
	return a
}

func verifI64s(tag string) []int64 {
	n := verifChoice(tag+".n", verifBound("slice", 2)+1)
	if n == 0 {
		return nil
	}
	a := make([]int64, n)
	for i := range a {
		a[i] = verifVarI64(tag)
	}
	return a
}

func verifEqU64s(a, b []uint64) bool {
	if len(a) != len(b) {
		return false
	}
	ok := true
	for i := range a {
		ok = verifAnd(ok, a[i] == b[i])
	}
	return ok
}

func verifEqI64s(a, b []int64) bool {
	if len(a) != len(b) {
		return false
	}
	ok := true
	for i := range a {
		ok = verifAnd(ok, a[i] == b[i])
	}
	return ok
}

func verifNode() *pilosa.Node {
	return &pilosa.Node{ID: verifStr("node.id"), URI: pilosa.URI{Scheme: verifStr("uri.scheme"), Host: verifStr("uri.host"), Port: verifU16("uri.port")},
		IsCoordinator: verifBool("node.coord"), State: verifStr("node.state")}
}

func verifEqNode(a, b *pilosa.Node) bool {
	if a == nil || b == nil {
		return a == nil && b == nil
	}
	return verifAnd(verifAnd(a.ID == b.ID, a.State == b.State), verifAnd(a.IsCoordinator == b.IsCoordinator,
		verifAnd(a.URI.Scheme == b.URI.Scheme, verifAnd(a.URI.Host == b.URI.Host, a.URI.Port == b.URI.Port))))
}

func VerifH27Messages() {
	var s Serializer
	switch verifChoice("type", verifBound("types", 12)) {
	case 0:
		m := &pilosa.CreateShardMessage{Index: verifStr("index"), Field: verifStr("field"), Shard: verifVarU64("shard")}
		buf, err := s.Marshal(m)
		verifAssert(err == nil, "marshal: no error")
		var o pilosa.CreateShardMessage
		verifAssert(s.Unmarshal(buf, &o) == nil, "unmarshal: no error")
		verifAssert(verifAnd(o.Index == m.Index, verifAnd(o.Field == m.Field, o.Shard == m.Shard)), "CreateShardMessage survives encoding")
	case 1:
		m := &pilosa.DeleteViewMessage{Index: verifStr("index"), Field: verifStr("field"), View: verifStr("view")}
		buf, err := s.Marshal(m)
		verifAssert(err == nil, "marshal: no error")
		var o pilosa.DeleteViewMessage
		verifAssert(s.Unmarshal(buf, &o) == nil, "unmarshal: no error")
		verifAssert(verifAnd(o.Index == m.Index, verifAnd(o.Field == m.Field, o.View == m.View)), "DeleteViewMessage survives encoding")
	case 2:
		m := &pilosa.ResizeInstructionComplete{JobID: verifVarI64("job"), Node: verifNode(), Error: verifStr("error")}
		buf, err := s.Marshal(m)
		verifAssert(err == nil, "marshal: no error")
		var o pilosa.ResizeInstructionComplete
		verifAssert(s.Unmarshal(buf, &o) == nil, "unmarshal: no error")
		verifAssert(verifAnd(o.JobID == m.JobID, verifAnd(o.Error == m.Error, verifEqNode(o.Node, m.Node))), "ResizeInstructionComplete survives encoding")
	case 3:
		m := &pilosa.ImportRequest{Index: verifStr("index"), Field: verifStr("field"), Shard: verifVarU64("shard"),
			RowIDs: verifU64s("rows"), ColumnIDs: verifU64s("cols"), Timestamps: verifI64s("ts")}
		buf, err := s.Marshal(m)
		verifAssert(err == nil, "marshal: no error")
		var o pilosa.ImportRequest
		verifAssert(s.Unmarshal(buf, &o) == nil, "unmarshal: no error")
		ok := verifAnd(o.Index == m.Index, verifAnd(o.Field == m.Field, o.Shard == m.Shard))
		ok = verifAnd(ok, verifAnd(verifEqU64s(o.RowIDs, m.RowIDs), verifAnd(verifEqU64s(o.ColumnIDs, m.ColumnIDs), verifEqI64s(o.Timestamps, m.Timestamps))))
		verifAssert(ok, "ImportRequest survives encoding")
	case 4:
		m := &pilosa.ImportValueRequest{Index: verifStr("index"), Field: verifStr("field"), Shard: verifVarU64("shard"),
			ColumnIDs: verifU64s("cols"), Values: verifI64s("vals")}
		buf, err := s.Marshal(m)
		verifAssert(err == nil, "marshal: no error")
		var o pilosa.ImportValueRequest
		verifAssert(s.Unmarshal(buf, &o) == nil, "unmarshal: no error")
		ok := verifAnd(o.Index == m.Index, verifAnd(o.Field == m.Field, o.Shard == m.Shard))
		ok = verifAnd(ok, verifAnd(verifEqU64s(o.ColumnIDs, m.ColumnIDs), verifEqI64s(o.Values, m.Values)))
		verifAssert(ok, "ImportValueRequest survives encoding")
	case 5:
		m := &pilosa.BlockDataRequest{Index: verifStr("index"), Field: verifStr("field"), View: verifStr("view"), Shard: verifVarU64("shard"), Block: verifVarU64("block")}
		buf, err := s.Marshal(m)
		verifAssert(err == nil, "marshal: no error")
		var o pilosa.BlockDataRequest
		verifAssert(s.Unmarshal(buf, &o) == nil, "unmarshal: no error")
		ok := verifAnd(o.Index == m.Index, verifAnd(o.Field == m.Field, verifAnd(o.View == m.View, verifAnd(o.Shard == m.Shard, o.Block == m.Block))))
		verifAssert(ok, "BlockDataRequest survives encoding")
	case 6:
		m := &pilosa.BlockDataResponse{RowIDs: verifU64s("rows"), ColumnIDs: verifU64s("cols")}
		buf, err := s.Marshal(m)
		verifAssert(err == nil, "marshal: no error")
		var o pilosa.BlockDataResponse
		verifAssert(s.Unmarshal(buf, &o) == nil, "unmarshal: no error")
		verifAssert(verifAnd(verifEqU64s(o.RowIDs, m.RowIDs), verifEqU64s(o.ColumnIDs, m.ColumnIDs)), "BlockDataResponse survives encoding")
	case 7:
		m := &pilosa.NodeStateMessage{NodeID: verifStr("id"), State: verifStr("state")}
		buf, err := s.Marshal(m)
		verifAssert(err == nil, "marshal: no error")
		var o pilosa.NodeStateMessage
		verifAssert(s.Unmarshal(buf, &o) == nil, "unmarshal: no error")
		verifAssert(verifAnd(o.NodeID == m.NodeID, o.State == m.State), "NodeStateMessage survives encoding")
	case 8:
		m := &pilosa.NodeEvent{Event: pilosa.NodeEventType(verifChoice("event", 3)), Node: verifNode()}
		buf, err := s.Marshal(m)
		verifAssert(err == nil, "marshal: no error")
		var o pilosa.NodeEvent
		verifAssert(s.Unmarshal(buf, &o) == nil, "unmarshal: no error")
		verifAssert(verifAnd(o.Event == m.Event, verifEqNode(o.Node, m.Node)), "NodeEvent survives encoding")
	case 9:
		m := &pilosa.TranslateKeysResponse{IDs: verifU64s("ids")}
		buf, err := s.Marshal(m)
		verifAssert(err == nil, "marshal: no error")
		var o pilosa.TranslateKeysResponse
		verifAssert(s.Unmarshal(buf, &o) == nil, "unmarshal: no error")
		verifAssert(verifEqU64s(o.IDs, m.IDs), "TranslateKeysResponse survives encoding")
	case 10:
		m := &pilosa.QueryRequest{Index: verifStr("index"), Query: verifStr("query"), Shards: verifU64s("shards"),
			ColumnAttrs: verifBool("attrs"), Remote: verifBool("remote"), ExcludeRowAttrs: verifBool("xr"), ExcludeColumns: verifBool("xc")}
		buf, err := s.Marshal(m)
		verifAssert(err == nil, "marshal: no error")
		var o pilosa.QueryRequest
		verifAssert(s.Unmarshal(buf, &o) == nil, "unmarshal: no error")
		// (Index travels in the request URL; the wire message has no such field.)
		ok := verifAnd(o.Query == m.Query, verifEqU64s(o.Shards, m.Shards))
		ok = verifAnd(ok, verifAnd(o.ColumnAttrs == m.ColumnAttrs, verifAnd(o.Remote == m.Remote, verifAnd(o.ExcludeRowAttrs == m.ExcludeRowAttrs, o.ExcludeColumns == m.ExcludeColumns))))
		verifAssert(ok, "QueryRequest survives encoding")
	case 11:
		// query results: ValCount, count, bool, pairs, row ids
		vc := pilosa.ValCount{Val: verifVarI64("val"), Count: verifVarI64("count")}
		n := verifVarU64("n")
		b := verifBool("b")
		pairs := []pilosa.Pair{{ID: verifVarU64("pid"), Key: verifStr("pkey"), Count: verifVarU64("pcount")}}
		ids := pilosa.RowIDs(verifU64s("rowids"))
		m := &pilosa.QueryResponse{Results: []interface{}{vc, n, b, pairs, ids}}
		buf, err := s.Marshal(m)
		verifAssert(err == nil, "marshal: no error")
		var o pilosa.QueryResponse
		verifAssert(s.Unmarshal(buf, &o) == nil, "unmarshal: no error")
		verifAssert(len(o.Results) == 5, "QueryResponse: result count")
		if len(o.Results) == 5 {
			ovc, ok1 := o.Results[0].(pilosa.ValCount)
			on, ok2 := o.Results[1].(uint64)
			ob, ok3 := o.Results[2].(bool)
			op, ok4 := o.Results[3].([]pilosa.Pair)
			oi, ok5 := o.Results[4].(pilosa.RowIDs)
			verifAssert(ok1 && ok2 && ok3 && ok4 && ok5, "QueryResponse: result kinds preserved")
			if ok1 && ok2 && ok3 && ok4 && ok5 {
				verifAssert(verifAnd(ovc.Val == vc.Val, ovc.Count == vc.Count), "QueryResponse: ValCount survives")
				verifAssert(on == n, "QueryResponse: count survives")
				verifAssert(ob == b, "QueryResponse: bool survives")
				verifAssert(len(op) == 1 && verifAnd(op[0].ID == pairs[0].ID, verifAnd(op[0].Key == pairs[0].Key, op[0].Count == pairs[0].Count)), "QueryResponse: pairs survive")
				verifAssert(verifEqU64s([]uint64(oi), []uint64(ids)), "QueryResponse: row ids survive")
			}
		}
	}
	verifReach("message round trip")
}

// arbitrary bytes into every message decoder: error or success, never a panic
func VerifH27Garbage() {
	var s Serializer
	n := verifChoice("len", verifBound("len", 6)+1)
	buf := verifBytes("buf", n)
	targets := []pilosa.Message{&pilosa.CreateShardMessage{}, &pilosa.CreateIndexMessage{}, &pilosa.CreateFieldMessage{}, &pilosa.ClusterStatus{},
		&pilosa.ResizeInstruction{}, &pilosa.ResizeInstructionComplete{}, &pilosa.NodeEvent{}, &pilosa.NodeStatus{}, &pilosa.QueryRequest{},
		&pilosa.QueryResponse{}, &pilosa.ImportRequest{}, &pilosa.ImportValueRequest{}, &pilosa.ImportRoaringRequest{}, &pilosa.BlockDataResponse{}}
	k := verifChoice("target", verifBound("targets", len(targets)))
	_ = s.Unmarshal(buf, targets[k])
	verifReach("garbage decoded or rejected")
	verifAssert(true, "no crash")
}

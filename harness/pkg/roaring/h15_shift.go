package roaring

// H15a: Bitmap.Shift(1) moves every value up by one, carrying over container
// edges (value 65535 of container k becomes value 0 of container k+1, which
// may or may not exist in the source).

func VerifH15Shift() {
	kind := 1 - verifChoice("kind", verifBound("kinds", 2))
	var b *Bitmap
	if kind == 0 {
		b = NewBitmap()
	} else {
		b = NewBTreeBitmap()
	}
	k1 := uint64(1 + verifChoice("gap", 2)) // second container adjacent or one key apart
	c0, s0 := verifMkContainer("a", verifChoice("a.typ", verifBound("typs", 3)), verifBound("array", 2), verifBound("runs", 2), verifBound("words", 1), 0)
	c1, s1 := verifMkContainer("b", verifChoice("b.typ", verifBound("typs", 3)), verifBound("array", 2), verifBound("runs", 2), verifBound("words", 1), 0)
	if c0.N() > 0 {
		b.Containers.Put(0, c0)
	}
	if c1.N() > 0 {
		b.Containers.Put(k1, c1)
	}
	out, err := b.Shift(1)
	verifReach("shifted")
	verifAssert(err == nil, "Shift(1): no error")
	if err != nil {
		return
	}
	x := uint64(verifChoice("probe.key", 4))<<16 | uint64(verifU16("probe.low"))
	y := x - 1
	want := verifAnd(x != 0, verifOr(verifAnd(y>>16 == 0, s0.has(uint16(y))), verifAnd(y>>16 == k1, s1.has(uint16(y)))))
	verifAssert(out.Contains(x) == want, "Shift(1): x in result iff x-1 in source")
	verifAssert(out.Count() == b.Count(), "Shift(1): count preserved (no value at the top of the key space)")
	// the source is unchanged (C03)
	verifAssert(b.Contains(x) == verifOr(verifAnd(x>>16 == 0, s0.has(uint16(x))), verifAnd(x>>16 == k1, s1.has(uint16(x)))), "Shift(1): source unchanged")
}

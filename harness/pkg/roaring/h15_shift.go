package roaring

// H15a: Bitmap.Shift(1) moves every value up by one, carrying over container
// edges (value 65535 of container k becomes value 0 of container k+1, which
// may or may not exist in the source).

func VerifH15Shift() {
	kind := 1 - verifChoice("kind", verifBound("kinds", 2))
	var b *Bitmap
	if kind == 0 {
		b = NewBitmap()
	} else {
		b = NewBTreeBitmap()
	}
	k1 := uint64(1 + verifChoice("gap", 2)) // second container adjacent or one key apart
	c0, s0 := verifMkContainer("a", verifChoice("a.typ", verifBound("typs", 3)), verifBound("array", 2), verifBound("runs", 2), verifBound("words", 1), 0)
	c1, s1 := verifMkContainer("b", verifChoice("b.typ", verifBound("typs", 3)), verifBound("array", 2), verifBound("runs", 2), verifBound("words", 1), 0)
	if c0.N() > 0 {
		b.Containers.Put(0, c0)
	}
	if c1.N() > 0 {
		b.Containers.Put(k1, c1)
	}
	out, err := b.Shift(1)
	verifReach("shifted")
	verifAssert(err == nil, "Shift(1): no error")
	if err != nil {
		return
	}
	x := uint64(verifChoice("probe.key", 4))<<16 | uint64(verifU16("probe.low"))
	y := x - 1
	want := verifAnd(x != 0, verifOr(verifAnd(y>>16 == 0, s0.has(uint16(y))), verifAnd(y>>16 == k1, s1.has(uint16(y)))))
	verifAssert(out.Contains(x) == want, "Shift(1): x in result iff x-1 in source")
	verifAssert(out.Count() == b.Count(), "Shift(1): count preserved (no value at the top of the key space)")
	// the source is unchanged (C03)
	verifAssert(b.Contains(x) == verifOr(verifAnd(x>>16 == 0, s0.has(uint16(x))), verifAnd(x>>16 == k1, s1.has(uint16(x)))), "Shift(1): source unchanged")
}

// H15b: the carry into a container that is exactly at the array size limit
// (4096 values): adding the carried bit converts the array to a bitmap.
func VerifH15ShiftFullArray() {
	b := NewBitmap()
	if verifChoice("carry", 2) == 1 {
		b.DirectAdd(65535) // last value of container 0: carries into container 1
	}
	// container 1: 4096 values 1, 3, 5, ... (shifted: 2, 4, ...; 0 stays free)
	n := verifBound("arraylen", 4096)
	for i := 0; i < n; i++ {
		b.DirectAdd(1<<16 | uint64(2*i+1))
	}
	carried := b.Contains(65535)
	out, err := b.Shift(1)
	verifReach("full array shifted")
	verifAssert(err == nil, "Shift(1): no error")
	if err != nil {
		return
	}
	verifAssert(out.Contains(1<<16) == carried, "the bit carried into a full array container is present")
	k := verifChoice("probe", 3)
	x := 1<<16 | uint64(2*[]int{0, n / 2, n - 1}[k]+1)
	verifAssert(out.Contains(x+1) && !out.Contains(x), "the array's own values moved up by one")
	verifAssert(out.Count() == b.Count(), "Shift(1): count preserved")
}

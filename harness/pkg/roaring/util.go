package roaring

// Shared harness vocabulary: symbolic containers with a harness-side
// description of the set they denote (verifSet), abstraction functions and
// representation invariants. All helpers are branch-free on symbolic data
// (verifAnd/verifOr/verifIte*) so that specifications do not fork paths.

// verifSet describes a set of uint16 independently of any Container.
type verifSet struct {
	kind  int // 0 array, 1 runs, 2 bitmap
	arr   []uint16
	runs  []interval16
	wpos  []int    // positions of symbolic bitmap words
	words []uint64 // their values
	bg    uint64   // value of every other bitmap word
}

func (s *verifSet) has(v uint16) bool {
	r := false
	switch s.kind {
	case 0:
		for i := range s.arr {
			r = verifOr(r, s.arr[i] == v)
		}
	case 1:
		for i := range s.runs {
			r = verifOr(r, verifAnd(s.runs[i].start <= v, v <= s.runs[i].last))
		}
	case 2:
		w := s.bg
		for i := range s.wpos {
			w = verifIteU64(int(v>>6) == s.wpos[i], s.words[i], w)
		}
		r = (w>>(v&63))&1 == 1
	}
	return r
}

// count returns |s| (used only where the code reports a cardinality).
func (s *verifSet) count() int32 {
	var n int32
	switch s.kind {
	case 0:
		n = int32(len(s.arr))
	case 1:
		for i := range s.runs {
			n += int32(s.runs[i].last-s.runs[i].start) + 1
		}
	case 2:
		n = int32(bitmapN-len(s.wpos)) * int32(popcount(s.bg))
		for i := range s.words {
			n += int32(popcount(s.words[i]))
		}
	}
	return n
}

func verifValidArray(a []uint16) bool {
	ok := true
	for i := 1; i < len(a); i++ {
		ok = verifAnd(ok, a[i-1] < a[i])
	}
	return ok
}

// verifValidRunsStrict: ordered, start<=last, disjoint (adjacent runs allowed).
func verifValidRunsStrict(runs []interval16) bool {
	ok := true
	for i := range runs {
		ok = verifAnd(ok, runs[i].start <= runs[i].last)
		if i > 0 {
			ok = verifAnd(ok, runs[i-1].last < runs[i].start)
		}
	}
	return ok
}

// verifBitmapPositions returns the word positions made symbolic for a bitmap
// with k symbolic words: container edges first.
func verifBitmapPositions(k int) []int {
	all := []int{0, 1023, 1, 511}
	if k > len(all) {
		k = len(all)
	}
	return all[:k]
}

// verifMkContainer builds a container of the requested encoding with
// symbolic contents and returns it with its specification set.
// typ: 0 array (≤ maxArr values), 1 run (≤ maxRuns runs), 2 bitmap (nWords
// symbolic words, background bg).
func verifMkContainer(tag string, typ, maxArr, maxRuns, nWords int, bg uint64) (*Container, *verifSet) {
	s := &verifSet{kind: typ, bg: bg}
	switch typ {
	case 0:
		n := verifChoice(tag+".n", maxArr+1)
		s.arr = make([]uint16, n)
		for i := range s.arr {
			s.arr[i] = verifNearU16(tag + ".a")
		}
		verifAssume(verifValidArray(s.arr))
		cp := make([]uint16, n)
		copy(cp, s.arr)
		return NewContainerArray(cp), s
	case 1:
		n := verifChoice(tag+".nr", maxRuns+1)
		s.runs = make([]interval16, n)
		for i := range s.runs {
			s.runs[i] = interval16{start: verifNearU16(tag + ".s"), last: verifNearU16(tag + ".l")}
		}
		verifAssume(verifValidRunsStrict(s.runs))
		if rl := verifBound("runlen", 0); rl > 0 {
			// kernels that loop per run element: bound the run length
			for i := range s.runs {
				verifAssume(s.runs[i].last-s.runs[i].start < uint16(rl))
			}
		}
		if verifDense && verifNearBase >= 0 {
			// dense variant: a long concrete run outside the symbolic window
			// pushes the cardinality over the array/bitmap thresholds
			filler := interval16{start: 8192, last: 8192 + 4999}
			if verifNearBase*64 < 8192 {
				s.runs = append(s.runs, filler)
			} else {
				s.runs = append([]interval16{filler}, s.runs...)
			}
		}
		cp := make([]interval16, len(s.runs))
		copy(cp, s.runs)
		return NewContainerRun(cp), s
	default:
		if verifDense {
			bg = ^uint64(0)
			s.bg = bg
		}
		// symbolic words: a window of nWords adjacent words whose base is a
		// choice among container edges / middle (bound "bases")
		bases := []int{0, bitmapN - nWords, 510}
		base := bases[verifChoice(tag+".base", verifBound("bases", 2))]
		s.wpos = make([]int, nWords)
		for i := range s.wpos {
			s.wpos[i] = base + i
		}
		s.words = make([]uint64, len(s.wpos))
		mask := ^uint64(0)
		if verifBound("wordmask6", 0) != 0 {
			mask = 0xE000000000000007 // bits 0-2 and 61-63: word edges
		}
		bm := make([]uint64, bitmapN)
		if bg != 0 {
			for i := range bm {
				bm[i] = bg
			}
		}
		for i, p := range s.wpos {
			s.words[i] = (bg &^ mask) | (verifU64(tag+".w") & mask)
			bm[p] = s.words[i]
		}
		return NewContainerBitmapN(bm, s.count()), s
	}
}

// verifContainerHas reads membership straight from the representation (not
// through Contains). For bitmap containers whose index is symbolic the read
// is an ite over the symbolic words (engine sparse read).
func verifContainerHas(c *Container, v uint16) bool {
	if c == nil {
		return false
	}
	r := false
	switch c.typ() {
	case containerArray:
		a := c.array()
		for i := range a {
			r = verifOr(r, a[i] == v)
		}
	case containerRun:
		rs := c.runs()
		for i := range rs {
			r = verifOr(r, verifAnd(rs[i].start <= v, v <= rs[i].last))
		}
	case containerBitmap:
		bm := c.bitmap()
		r = (bm[v>>6]>>(v&63))&1 == 1
	}
	return r
}

// verifContainerWF is the representation invariant of a container whose
// cardinality must be wantN. For bitmap containers the popcount of all 1024
// words is not recomputed (it follows from wantN being the specification's
// cardinality together with membership equivalence for every value).
func verifContainerWF(c *Container, wantN int32) bool {
	if c == nil {
		return wantN == 0
	}
	ok := c.N() == wantN
	switch c.typ() {
	case containerArray:
		a := c.array()
		ok = verifAnd(ok, verifAnd(verifValidArray(a), int(c.N()) == len(a)))
	case containerRun:
		rs := c.runs()
		var n int32
		for i := range rs {
			n += int32(rs[i].last-rs[i].start) + 1
		}
		ok = verifAnd(ok, verifAnd(verifValidRunsStrict(rs), c.N() == n))
	case containerBitmap:
		ok = verifAnd(ok, len(c.bitmap()) == bitmapN)
	default:
		ok = false
	}
	return ok
}

// verifWordMaskCount returns the number of bits of w (the word at position
// p) that lie in the inclusive value range [lo, hi].
func verifWordMaskCount(w uint64, p int, lo, hi uint16) int32 {
	wlo, whi := uint32(p*64), uint32(p*64+63)
	a := verifIteU32(uint32(lo) > wlo, uint32(lo), wlo)
	b := verifIteU32(uint32(hi) < whi, uint32(hi), whi)
	nonEmpty := a <= b
	sh := verifIteU32(nonEmpty, a-wlo, 0)      // 0..63
	cnt := verifIteU32(nonEmpty, b-a+1, 0)     // 0..64
	m := w >> uint64(sh)
	m = verifIteU64(cnt >= 64, m, m&((uint64(1)<<uint64(cnt))-1))
	return int32(popcount(m))
}

// countIn returns |s ∩ [lo,hi]| (inclusive bounds).
func (s *verifSet) countIn(lo, hi uint16) int32 {
	var n int32
	switch s.kind {
	case 0:
		for i := range s.arr {
			n += int32(verifIteInt(verifAnd(lo <= s.arr[i], s.arr[i] <= hi), 1, 0))
		}
	case 1:
		for i := range s.runs {
			a := verifIteU32(s.runs[i].start > lo, uint32(s.runs[i].start), uint32(lo))
			b := verifIteU32(s.runs[i].last < hi, uint32(s.runs[i].last), uint32(hi))
			n += int32(verifIteU32(a <= b, b-a+1, 0))
		}
	case 2:
		// background: empty or all ones
		for i, p := range s.wpos {
			n += verifWordMaskCount(s.words[i], p, lo, hi)
		}
		if s.bg != 0 {
			rest := int32(verifIteU32(lo <= hi, uint32(hi)-uint32(lo)+1, 0))
			for _, p := range s.wpos {
				rest -= verifWordMaskCount(^uint64(0), p, lo, hi)
			}
			n += rest
		}
	}
	return n
}

// verifInterCount returns |a ∩ b| from the two descriptions (bitmap
// backgrounds must be empty).
func verifInterCount(a, b *verifSet) int32 {
	var n int32
	switch {
	case a.kind == 0:
		for i := range a.arr {
			n += int32(verifIteInt(b.has(a.arr[i]), 1, 0))
		}
	case b.kind == 0:
		for i := range b.arr {
			n += int32(verifIteInt(a.has(b.arr[i]), 1, 0))
		}
	case a.kind == 1:
		for i := range a.runs {
			n += b.countIn(a.runs[i].start, a.runs[i].last)
		}
	case b.kind == 1:
		for i := range b.runs {
			n += a.countIn(b.runs[i].start, b.runs[i].last)
		}
	default:
		common := 0
		for i, p := range a.wpos {
			hit := false
			for j, q := range b.wpos {
				if p == q {
					n += int32(popcount(a.words[i] & b.words[j]))
					hit = true
					common++
				}
			}
			if !hit {
				n += int32(popcount(a.words[i] & b.bg))
			}
		}
		for j, q := range b.wpos {
			hit := false
			for _, p := range a.wpos {
				hit = hit || p == q
			}
			if !hit {
				n += int32(popcount(b.words[j] & a.bg))
			}
		}
		n += int32(bitmapN-len(a.wpos)-len(b.wpos)+common) * int32(popcount(a.bg&b.bg))
	}
	return n
}

// verifPair builds two symbolic containers for encoding pair index p in 0..8.
// The bitmap operand (if any) is built first; with bound "near" set, the
// array/run values of its partner are confined to a 128-value window around
// the bitmap's symbolic words (base*64 + 7 free bits), which keeps word
// indices syntactically almost concrete.
func verifPair(p int) (*Container, *verifSet, *Container, *verifSet) {
	ma, mr, nw := verifBound("array", 2), verifBound("runs", 2), verifBound("words", 1)
	ta, tb := p/3, p%3
	verifNearBase = -1
	var a, b *Container
	var sa, sb *verifSet
	if ta == 2 {
		a, sa = verifMkContainer("a", ta, ma, mr, nw, 0)
		if verifBound("near", 0) != 0 {
			verifNearBase = sa.wpos[0]
		}
		b, sb = verifMkContainer("b", tb, ma, mr, nw, 0)
	} else {
		if tb == 2 {
			b, sb = verifMkContainer("b", tb, ma, mr, nw, 0)
			if verifBound("near", 0) != 0 {
				verifNearBase = sb.wpos[0]
			}
		} else if verifBound("near", 0) == 2 {
			// no bitmap operand, but the kernel converts to a bitmap and scans it
			verifNearBase = []int{0, bitmapN - 2}[verifChoice("near.base", 2)]
		}
		a, sa = verifMkContainer("a", ta, ma, mr, nw, 0)
		if tb != 2 {
			b, sb = verifMkContainer("b", tb, ma, mr, nw, 0)
		}
	}
	verifLastNear = verifNearBase
	verifNearBase = -1
	return a, sa, b, sb
}

// verifLastNear: the window base the last verifPair call used (-1: none).
var verifLastNear = -1

// verifNearBase >= 0 confines verifNearU16 to [base*64, base*64+127] (clamped
// so that the window stays inside the container).
var verifNearBase = -1

func verifNearU16(tag string) uint16 {
	v := verifU16(tag)
	if verifNearBase < 0 {
		return v
	}
	lo := verifNearBase &^ 1 // even word: the low 7 bits of lo*64 are zero
	return uint16(lo*64) | (v & 0x7F)
}

package roaring

import "bytes"

// verifHistOps, when set, maps the op choice of verifHistory to a sub-alphabet.
var verifHistOps []int

// H02c: three-step histories over the operations that create, restructure and
// refill containers: RemoveN / clearing imports (which can leave an empty
// container behind), Optimize (which drops or re-encodes containers), Add.
func verifCycles(kind int) {
	verifHistOps = []int{0, 3, 4, 5}
	verifHistory(kind)
	verifHistOps = nil
}

func VerifH02CyclesSlice() { verifCycles(0) }
func VerifH02CyclesBTree() { verifCycles(1) }

// H04d: the encoding of a bitmap that went through a history (containers
// emptied by removals, restructured by Optimize) decodes to the same set.
func verifHistoryRoundTrip(kind int) {
	var b *Bitmap
	if kind == 0 {
		b = NewBitmap()
	} else {
		b = NewBTreeBitmap()
	}
	s := &verifShadow{}
	steps := verifBound("steps", 2)
	for i := 0; i < steps; i++ {
		x := verifHistValue()
		switch verifChoice("op", 3) {
		case 0:
			s.add(x)
			_, _ = b.Add(x)
		case 1:
			s.remove(x)
			_, _ = b.Remove(x)
		case 2:
			b.Optimize()
		}
	}
	var buf bytes.Buffer
	_, err := b.WriteTo(&buf)
	verifAssert(err == nil, "WriteTo: no error")
	b2 := NewBitmap()
	err = b2.UnmarshalBinary(buf.Bytes())
	verifReach("history encoded and decoded")
	verifAssert(err == nil, "the encoding of a bitmap with a history decodes")
	if err == nil {
		verifCheckAgainstShadow(b2, s, "decoded after history")
	}
}

func VerifH04HistoryRoundTripSlice() { verifHistoryRoundTrip(0) }
func VerifH04HistoryRoundTripBTree() { verifHistoryRoundTrip(1) }

package roaring

// verifHistOps, when set, maps the op choice of verifHistory to a sub-alphabet.
var verifHistOps []int

// H02c: three-step histories over the operations that create, restructure and
// refill containers: RemoveN / clearing imports (which can leave an empty
// container behind), Optimize (which drops or re-encodes containers), Add.
func verifCycles(kind int) {
	verifHistOps = []int{0, 3, 4, 5}
	verifHistory(kind)
	verifHistOps = nil
}

func VerifH02CyclesSlice() { verifCycles(0) }
func VerifH02CyclesBTree() { verifCycles(1) }

package roaring

// H01c: the binary kernels on dense operands (more than 4096 values), which
// take the bitmap-output branches that the sparse harnesses never reach.
// Bitmap operands have an all-ones background around their symbolic words; run
// operands carry a long concrete filler run outside the symbolic window.

var verifDense bool

func verifDenseOp(name string, op func(a, b *Container) *Container, spec func(x, y bool) bool, count func(na, nb, ni int32) int32) {
	p := []int{7, 5, 8, 4}[verifChoice("pair", verifBound("pairs", 4))] // bitmap×run, run×bitmap, bitmap×bitmap, run×run
	verifDense = true
	a, sa, b, sb := verifPair(p)
	verifDense = false
	r := op(a, b)
	v := verifNearProbe()
	verifReach(name)
	if verifBound("cardinality", 1) != 0 {
		verifAssert(verifContainerWF(r, count(sa.count(), sb.count(), verifInterCount(sa, sb))), name+": result invariant and cardinality")
	}
	verifAssert(verifContainerHas(r, v) == spec(sa.has(v), sb.has(v)), name+": membership")
	verifAssert(verifContainerHas(a, v) == sa.has(v), name+": left operand unchanged")
	verifAssert(verifContainerHas(b, v) == sb.has(v), name+": right operand unchanged")
}

// probe: inside the symbolic window (7 free bits), inside the filler run, or
// in the untouched background; the word index stays (almost) concrete, which a
// free 16-bit probe into a dense bitmap would not.
func verifNearProbe() uint16 {
	v := verifU16("probe")
	switch verifChoice("probe.region", 3) {
	case 0:
		if verifLastNear >= 0 {
			return uint16((verifLastNear&^1)*64) | (v & 0x7F)
		}
		return v & 0x7F
	case 1:
		return 8192 + (v & 0x3F) + 64*uint16(verifChoice("probe.fillerword", 2))*78 // first / last word of the filler
	}
	return 40000 + (v & 0x3F)
}

func VerifH01DenseIntersect() {
	verifDenseOp("dense intersect", intersect, func(x, y bool) bool { return verifAnd(x, y) }, func(na, nb, ni int32) int32 { return ni })
}

func VerifH01DenseUnion() {
	verifDenseOp("dense union", union, func(x, y bool) bool { return verifOr(x, y) }, func(na, nb, ni int32) int32 { return na + nb - ni })
}

func VerifH01DenseDifference() {
	verifDenseOp("dense difference", difference, func(x, y bool) bool { return verifAnd(x, !y) }, func(na, nb, ni int32) int32 { return na - ni })
}

func VerifH01DenseXor() {
	verifDenseOp("dense xor", xor, func(x, y bool) bool { return x != y }, func(na, nb, ni int32) int32 { return na + nb - 2*ni })
}

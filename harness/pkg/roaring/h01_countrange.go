package roaring

// H01b: countRange on each container encoding against the closed-form spec.

func verifValidRuns(runs []interval16) bool {
	ok := true
	for i := range runs {
		ok = verifAnd(ok, runs[i].start <= runs[i].last)
		if i > 0 {
			// ordered, non-overlapping, non-adjacent not required
			ok = verifAnd(ok, uint32(runs[i-1].last)+1 <= uint32(runs[i].start))
		}
	}
	return ok
}

func verifClampCount(s, l, start, end int32) int32 {
	// |[s,l] ∩ [start,end)|
	lo := verifIteI64(int64(s) > int64(start), int64(s), int64(start))
	hi := verifIteI64(int64(l)+1 < int64(end), int64(l)+1, int64(end))
	return int32(verifIteI64(hi > lo, hi-lo, 0))
}

func VerifH01RunCountRange() {
	nr := verifChoice("nruns", verifBound("runs", 3)+1)
	runs := make([]interval16, nr)
	for i := range runs {
		runs[i] = interval16{start: verifU16("s"), last: verifU16("l")}
	}
	verifAssume(verifValidRuns(runs))
	c := NewContainerRun(runs)
	start, end := verifI32("start"), verifI32("end")
	// callers (Bitmap.CountRange) pass start = lowbits(x) <= 65535
	verifAssume(verifAnd(verifAnd(0 <= start, start <= 65535), verifAnd(start <= end, end <= 65536)))
	got := c.countRange(start, end)
	var want int32
	for i := range runs {
		want += verifClampCount(int32(runs[i].start), int32(runs[i].last), start, end)
	}
	verifReach("countRange(run)")
	verifAssert(got == want, "countRange(run)")
}

func VerifH01ArrayCountRange() {
	n := verifChoice("n", verifBound("array", 3)+1)
	a := make([]uint16, n)
	ok := true
	for i := range a {
		a[i] = verifU16("a")
		if i > 0 {
			ok = verifAnd(ok, a[i-1] < a[i])
		}
	}
	verifAssume(ok)
	c := NewContainerArray(a)
	start, end := verifI32("start"), verifI32("end")
	// callers (Bitmap.CountRange) pass start = lowbits(x) <= 65535
	verifAssume(verifAnd(verifAnd(0 <= start, start <= 65535), verifAnd(start <= end, end <= 65536)))
	got := c.countRange(start, end)
	var want int32
	for i := range a {
		want += verifClampCount(int32(a[i]), int32(a[i]), start, end)
	}
	verifReach("countRange(array)")
	verifAssert(got == want, "countRange(array)")
}

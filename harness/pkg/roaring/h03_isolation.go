package roaring

import "bytes"

// H03a: values derived from a bitmap are isolated from later mutations of
// the source, and mutating the derived value does not change the source.

func verifDerive(a, b *Bitmap, k int) *Bitmap {
	switch k {
	case 0:
		return a.Clone()
	case 1:
		return a.Freeze()
	case 2:
		return a.Union(b)
	case 3:
		return a.Intersect(b)
	case 4:
		return a.Difference(b)
	case 5:
		return a.Xor(b)
	case 6:
		return a.OffsetRange(0, 1<<16, 2<<16) // container key 1 moved to key 0
	default:
		return a.Flip(1<<16, 2<<16-1)
	}
}

func verifMutate(m *Bitmap, k int) {
	x := uint64(1)<<16 | uint64(verifU16("mut.low"))
	switch k {
	case 0:
		_, _ = m.Add(x)
	case 1:
		_, _ = m.Remove(x)
	case 2:
		_, _ = m.AddN(x, x+1)
	case 3:
		_, _ = m.RemoveN(x, x^1)
	case 4:
		src := NewBitmap()
		src.DirectAdd(x)
		var buf bytes.Buffer
		_, _ = src.WriteTo(&buf)
		_, _, _ = m.ImportRoaringBits(buf.Bytes(), verifChoice("mut.clear", 2) == 1, false, 0)
	case 5:
		m.DirectAdd(x)
	default:
		m.Optimize()
	}
}

func VerifH03Isolation() {
	kind := 1 - verifChoice("kind", verifBound("kinds", 2)) // tree-backed first
	typ := verifChoice("typ", verifBound("atyps", 3))
	verifNearBase = 0
	a, _ := verifMkOne("a", kind, 1, typ)
	b, _ := verifMkOne("b", 0, 1, verifChoice("btyp", verifBound("btyps", 2)))
	verifNearBase = -1
	dk := verifChoice("derive", verifBound("derivations", 8))
	d := verifDerive(a, b, dk)
	// probes: in the derived value's key space and in the source's
	lo := uint64(verifU16("probe.low"))
	pa := uint64(1)<<16 | lo
	pd := pa
	if dk == 6 {
		pd = lo
	}
	beforeA := a.Contains(pa)
	beforeD := d.Contains(pd)
	side := verifChoice("mutate.side", 2)
	mk := verifChoice("mutation", verifBound("mutations", 7))
	if side == 0 {
		verifMutate(a, mk)
		verifReach("source mutated")
		verifAssert(d.Contains(pd) == beforeD, "derived value unchanged by mutating its source")
	} else {
		if dk == 6 {
			// the derived bitmap lives at key 0: mutate there
			x := uint64(verifU16("mut.low"))
			if mk%2 == 0 {
				_, _ = d.Add(x)
			} else {
				_, _ = d.Remove(x)
			}
		} else {
			verifMutate(d, mk)
		}
		verifReach("derived mutated")
		verifAssert(a.Contains(pa) == beforeA, "source unchanged by mutating the derived value")
	}
}

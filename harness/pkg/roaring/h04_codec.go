package roaring

import "bytes"

// verifBitmapSpec: a bitmap of ≤ 2 containers with chosen keys and symbolic
// contents, plus its harness-side description.
type verifBitmapSpec struct {
	keys []uint64
	sets []*verifSet
}

func (s *verifBitmapSpec) has(x uint64) bool {
	r := false
	for i := range s.keys {
		r = verifOr(r, verifAnd(highbits(x) == s.keys[i], s.sets[i].has(lowbits(x))))
	}
	return r
}

var verifKeyTable = []uint64{0, 1, 2, 0xFFFF, 0x10000, (1 << 48) - 1}

// verifMkBitmap builds a bitmap over the chosen container collection
// (kind 0: slice, 1: b-tree) with nc containers at ascending keys taken from
// verifKeyTable.
func verifMkBitmap(tag string, kind, nc int) (*Bitmap, *verifBitmapSpec) {
	var b *Bitmap
	if kind == 0 {
		b = NewBitmap()
	} else {
		b = NewBTreeBitmap()
	}
	s := &verifBitmapSpec{}
	ki := 0
	for i := 0; i < nc; i++ {
		// strictly ascending key choice
		ki += verifChoice(tag+".key", verifBound("keychoices", 2))
		if ki >= len(verifKeyTable) {
			verifStop()
		}
		key := verifKeyTable[ki]
		ki++
		typ := verifChoice(tag+".typ", 3)
		c, cs := verifMkContainer(tag, typ, verifBound("array", 2), verifBound("runs", 2), verifBound("words", 1), 0)
		verifAssume(c.N() > 0)
		b.Containers.Put(key, c)
		s.keys = append(s.keys, key)
		s.sets = append(s.sets, cs)
	}
	return b, s
}

// verifProbe returns a probe value whose container key is one of the spec's
// keys or a neighbouring one, with a free low half.
func verifProbe(s *verifBitmapSpec, extra ...*verifBitmapSpec) uint64 {
	keys := append([]uint64{}, s.keys...)
	for _, e := range extra {
		keys = append(keys, e.keys...)
	}
	keys = append(keys, 3) // a key no spec uses
	k := keys[verifChoice("probe.key", len(keys))]
	return k<<16 | uint64(verifU16("probe.low"))
}

// H04a: WriteTo -> UnmarshalBinary is the identity on sets and flags.
func VerifH04RoundTrip() {
	kind := verifChoice("src.kind", 2)
	nc := 1 + verifChoice("nc", verifBound("containers", 2))
	b, s := verifMkBitmap("b", kind, nc)
	b.Flags = verifU8("flags")
	flags := b.Flags
	var buf bytes.Buffer
	n, err := b.WriteTo(&buf)
	verifAssert(err == nil, "WriteTo: no error")
	data := buf.Bytes()
	verifAssert(int(n) == len(data), "WriteTo: reported length")
	var b2 *Bitmap
	if verifChoice("dst.kind", 2) == 0 {
		b2 = NewBitmap()
	} else {
		b2 = NewBTreeBitmap()
	}
	verifReadOnly(data)
	err = b2.UnmarshalBinary(data)
	verifReach("roundtrip")
	verifAssert(err == nil, "UnmarshalBinary: accepts own encoding")
	verifAssert(b2.Flags == flags, "roundtrip: flags")
	x := verifProbe(s)
	verifAssert(b2.Contains(x) == s.has(x), "roundtrip: membership")
	verifAssert(b.Contains(x) == s.has(x), "roundtrip: source unchanged")
	var cnt uint64
	for i := range s.sets {
		cnt += uint64(s.sets[i].count())
	}
	verifAssert(b2.Count() == cnt, "roundtrip: count")
}

// verifMkOne builds a one-container bitmap (slice- or tree-backed) at key;
// typ 3 is a full container (a single run [0,65535]).
func verifMkOne(tag string, kind int, key uint64, typ int) (*Bitmap, *verifSet) {
	var b *Bitmap
	if kind == 0 {
		b = NewBitmap()
	} else {
		b = NewBTreeBitmap()
	}
	var c *Container
	var s *verifSet
	if typ == 3 {
		s = &verifSet{kind: 1, runs: []interval16{{start: 0, last: 65535}}}
		c = NewContainerRun([]interval16{{start: 0, last: 65535}})
	} else {
		c, s = verifMkContainer(tag, typ, verifBound("array", 2), verifBound("runs", 2), verifBound("words", 1), 0)
	}
	if c.N() > 0 {
		b.Containers.Put(key, c)
	}
	return b, s
}

// H04c: ImportRoaringBits(data) == union with / difference from the decoded
// set, and reports the number of bits changed.
func VerifH04Import() {
	tkind := 1 - verifChoice("target.kind", verifBound("tkinds", 2)) // tree-backed first
	ttyp := verifChoice("target.typ", verifBound("ttyps", 3))
	styp := verifChoice("source.typ", verifBound("styps", 3)+verifBound("full", 1))
	if styp == verifBound("styps", 3) {
		styp = 3 // the extra choice is the full container
	}
	sameKey := verifChoice("samekey", 2) == 0
	tkey, skey := uint64(1), uint64(1)
	if !sameKey {
		skey = 2
	}
	verifNearBase = -1
	if verifBound("near", 1) != 0 {
		verifNearBase = 0
	}
	t, ts := verifMkOne("t", tkind, tkey, ttyp)
	src, ss := verifMkOne("s", 0, skey, styp)
	verifNearBase = -1
	verifAssume(ss.count() > 0)
	var buf bytes.Buffer
	_, err := src.WriteTo(&buf)
	verifAssert(err == nil, "WriteTo: no error")
	data := buf.Bytes()
	verifReadOnly(data)
	clear := verifChoice("clear", 2) == 1
	inter := int32(0)
	if sameKey {
		inter = verifInterCount(ts, ss)
	}
	changed, _, err := t.ImportRoaringBits(data, clear, false, 0)
	verifReach("import done")
	verifAssert(err == nil, "ImportRoaringBits: accepts valid payload")
	lo := verifU16("probe.low")
	inT := ts.has(lo)
	inS := ss.has(lo)
	if clear {
		verifAssert(changed == int(inter), "import(clear): changed = |S ∩ T|")
		verifAssert(t.Contains(tkey<<16|uint64(lo)) == verifAnd(inT, !verifAnd(sameKey, inS)), "import(clear): target = T minus S")
	} else {
		verifAssert(changed == int(ss.count()-inter), "import(set): changed = |S minus T|")
		verifAssert(t.Contains(tkey<<16|uint64(lo)) == verifOr(inT, verifAnd(sameKey, inS)), "import(set): target key = T union S")
		if !sameKey {
			verifAssert(t.Contains(skey<<16|uint64(lo)) == inS, "import(set): new container = S")
		}
	}
	verifAssert(t.Count() == uint64(verifIteInt(clear, int(ts.count()-inter), int(ts.count()+ss.count()-inter))), "import: Count")
}

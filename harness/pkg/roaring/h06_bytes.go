package roaring

// H06: arbitrary (fully symbolic) byte strings into every roaring decoder.
// The obligation is implicit: no panic, no out-of-object access, termination
// within the instruction budget. Returned errors are fine.

func verifSymBytes(tag string, maxLen int) []byte {
	n := verifChoice(tag+".len", maxLen+1)
	return verifBytes(tag, n)
}

func VerifH06UnmarshalBinary() {
	data := verifSymBytes("data", verifBound("len", 12))
	var b *Bitmap
	if verifChoice("kind", 2) == 0 {
		b = NewBitmap()
	} else {
		b = NewBTreeBitmap()
	}
	verifReadOnly(data)
	err := b.UnmarshalBinary(data)
	verifReach("UnmarshalBinary returned")
	if err == nil {
		// an accepted bitmap must be readable without crashing
		_ = b.Count()
		_ = b.Contains(uint64(verifU16("probe")))
	}
	verifAssert(true, "no crash")
}

// Pilosa-format header fixed, everything after the cookie symbolic.
func VerifH06UnmarshalPilosa() {
	rest := verifSymBytes("rest", verifBound("len", 20))
	data := append([]byte{0x3C, 0x30, 0x00, 0x00}, rest...)
	b := NewBitmap()
	verifReadOnly(data)
	err := b.UnmarshalBinary(data)
	verifReach("UnmarshalBinary(pilosa) returned")
	if err == nil {
		_ = b.Count()
	}
	verifAssert(true, "no crash")
}

func VerifH06ImportRoaringBits() {
	data := verifSymBytes("data", verifBound("len", 12))
	b := NewBitmap()
	b.DirectAdd(5)
	b.DirectAdd(70000)
	clear := verifBool("clear")
	verifReadOnly(data)
	_, _, err := b.ImportRoaringBits(data, clear, false, 0)
	verifReach("ImportRoaringBits returned")
	_ = err
	verifAssert(true, "no crash")
}

func VerifH06OpUnmarshal() {
	data := verifSymBytes("data", verifBound("len", 16))
	var o op
	err := o.UnmarshalBinary(data)
	verifReach("op.UnmarshalBinary returned")
	if err == nil {
		verifAssert(o.size() <= len(data), "op.size within buffer")
		b := NewBitmap()
		o.apply(b)
	}
	verifAssert(true, "no crash")
}

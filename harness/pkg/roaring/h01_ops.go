package roaring

// H01a: binary container kernels for all nine encoding pairs.
// H01b: unary kernels and reads.

func verifBinaryOp(name string, op func(a, b *Container) *Container, spec func(x, y bool) bool, count func(na, nb, ni int32) int32) {
	p := verifChoice("pair", 9)
	a, sa, b, sb := verifPair(p)
	r := op(a, b)
	v := verifU16("probe")
	verifReach(name)
	verifAssert(verifContainerWF(r, count(sa.count(), sb.count(), verifInterCount(sa, sb))), name+": result invariant and cardinality")
	verifAssert(verifContainerHas(r, v) == spec(sa.has(v), sb.has(v)), name+": membership")
	verifAssert(verifContainerHas(a, v) == sa.has(v), name+": left operand unchanged")
	verifAssert(verifContainerHas(b, v) == sb.has(v), name+": right operand unchanged")
}

func VerifH01Intersect() {
	verifBinaryOp("intersect", intersect, func(x, y bool) bool { return verifAnd(x, y) }, func(na, nb, ni int32) int32 { return ni })
}

func VerifH01Union() {
	verifBinaryOp("union", union, func(x, y bool) bool { return verifOr(x, y) }, func(na, nb, ni int32) int32 { return na + nb - ni })
}

func VerifH01Difference() {
	verifBinaryOp("difference", difference, func(x, y bool) bool { return verifAnd(x, !y) }, func(na, nb, ni int32) int32 { return na - ni })
}

func VerifH01Xor() {
	verifBinaryOp("xor", xor, func(x, y bool) bool { return x != y }, func(na, nb, ni int32) int32 { return na + nb - 2*ni })
}

func VerifH01IntersectionCount() {
	p := verifChoice("pair", 9)
	a, sa, b, sb := verifPair(p)
	got := intersectionCount(a, b)
	want := verifInterCount(sa, sb)
	verifReach("intersectionCount")
	verifAssert(got == want, "intersectionCount")
}

func VerifH01UnionInPlace() {
	p := verifChoice("pair", 9)
	a, sa, b, sb := verifPair(p)
	r := a.unionInPlace(b)
	// documented contract: the cardinality of a bitmap result is stale until
	// Repair (callers repair once after a bulk union)
	if r != nil && r.typ() == containerBitmap {
		r.Repair()
	}
	v := verifU16("probe")
	verifReach("unionInPlace")
	verifAssert(verifContainerWF(r, sa.count()+sb.count()-verifInterCount(sa, sb)), "unionInPlace: result invariant and cardinality")
	verifAssert(verifContainerHas(r, v) == verifOr(sa.has(v), sb.has(v)), "unionInPlace: membership")
	verifAssert(verifContainerHas(b, v) == sb.has(v), "unionInPlace: right operand unchanged")
}

// ---------- unary ----------

func verifOne(tag string) (*Container, *verifSet) {
	t := verifChoice(tag+".typ", 3)
	if t != 2 && verifBound("near", 0) == 2 {
		// kernels that convert to a bitmap and scan all of it: keep the
		// symbolic values in one 128-value window at a container edge
		verifNearBase = []int{0, bitmapN - 2}[verifChoice("near.base", 2)]
	}
	c, s := verifMkContainer(tag, t, verifBound("array", 3), verifBound("runs", 2), verifBound("words", 1), 0)
	verifNearBase = -1
	return c, s
}

func VerifH01Contains() {
	c, s := verifOne("c")
	v := verifU16("probe")
	verifReach("Contains")
	verifAssert(c.Contains(v) == s.has(v), "Contains")
	verifAssert(c.count() == s.count(), "count")
}

func VerifH01Add() {
	c, s := verifOne("c")
	x := verifU16("x")
	v := verifU16("probe")
	was := s.has(x)
	n0 := s.count()
	r, added := c.add(x)
	verifReach("add")
	verifAssert(added == !was, "add: changed flag")
	verifAssert(verifContainerWF(r, n0+int32(verifIteInt(was, 0, 1))), "add: result invariant and cardinality")
	verifAssert(verifContainerHas(r, v) == verifOr(s.has(v), v == x), "add: membership")
}

func VerifH01Remove() {
	c, s := verifOne("c")
	x := verifU16("x")
	v := verifU16("probe")
	was := s.has(x)
	n0 := s.count()
	r, removed := c.remove(x)
	verifReach("remove")
	verifAssert(removed == was, "remove: changed flag")
	verifAssert(verifContainerWF(r, n0-int32(verifIteInt(was, 1, 0))), "remove: result invariant and cardinality")
	verifAssert(verifContainerHas(r, v) == verifAnd(s.has(v), v != x), "remove: membership")
}

func VerifH01Max() {
	c, s := verifOne("c")
	verifAssume(c.N() > 0)
	m := c.max()
	v := verifU16("probe")
	verifReach("max")
	verifAssert(s.has(m), "max: is a member")
	verifAssert(verifImplies(s.has(v), v <= m), "max: upper bound")
}

func VerifH01Optimize() {
	c, s := verifOne("c")
	r := c.optimize()
	v := verifU16("probe")
	verifReach("optimize")
	verifAssert(verifContainerWF(r, s.count()), "optimize: result invariant and cardinality")
	verifAssert(verifContainerHas(r, v) == s.has(v), "optimize: membership")
	verifAssert((r == nil) == (s.count() == 0), "optimize: nil iff empty")
}

func VerifH01Clone() {
	c, s := verifOne("c")
	r := c.Clone()
	v := verifU16("probe")
	verifReach("Clone")
	verifAssert(verifContainerWF(r, s.count()), "Clone: result invariant and cardinality")
	verifAssert(verifContainerHas(r, v) == s.has(v), "Clone: membership")
}

func VerifH01Flip() {
	c, s := verifOne("c")
	r := flip(c)
	v := verifU16("probe")
	verifReach("flip")
	verifAssert(verifContainerWF(r, 65536-s.count()), "flip: result invariant and cardinality")
	verifAssert(verifContainerHas(r, v) == !s.has(v), "flip: membership")
}

func VerifH01Shift() {
	c, s := verifOne("c")
	r, carry := shift(c)
	v := verifU16("probe")
	verifReach("shift")
	verifAssert(verifContainerWF(r, s.count()-int32(verifIteInt(s.has(65535), 1, 0))), "shift: result invariant and cardinality")
	verifAssert(carry == s.has(65535), "shift: carry")
	verifAssert(verifContainerHas(r, v) == verifAnd(v != 0, s.has(v-1)), "shift: membership")
}

func VerifH01Convert() {
	c, s := verifOne("c")
	verifAssume(c.N() > 0)
	var r *Container
	switch s.kind {
	case 0:
		if verifChoice("to", 2) == 0 {
			r = c.arrayToBitmap()
		} else {
			r = c.arrayToRun(c.countRuns())
		}
	case 1:
		if verifChoice("to", 2) == 0 {
			r = c.runToBitmap()
		} else {
			verifAssume(c.N() <= 8)
			r = c.runToArray()
		}
	default:
		if verifChoice("to", 2) == 0 {
			verifAssume(c.N() <= 8)
			r = c.bitmapToArray()
		} else {
			r = c.bitmapToRun(c.countRuns())
		}
	}
	v := verifU16("probe")
	verifReach("convert")
	verifAssert(verifContainerWF(r, s.count()), "convert: result invariant and cardinality")
	verifAssert(verifContainerHas(r, v) == s.has(v), "convert: membership")
}

func VerifH01BitmapCountRange() {
	c, s := verifMkContainer("c", 2, 0, 0, verifBound("words", 1), 0)
	start, end := verifI32("start"), verifI32("end")
	// callers (Bitmap.CountRange) pass start = lowbits(x) <= 65535
	verifAssume(verifAnd(verifAnd(0 <= start, start <= 65535), verifAnd(start <= end, end <= 65536)))
	// the kernel loops over the words between start and end: keep the
	// symbolic end(s) inside the window of symbolic words; the other end may
	// be pinned to a container edge
	wlo, whi := int32(s.wpos[0]*64), int32((s.wpos[len(s.wpos)-1]+1)*64)
	// (pinning is only used next to that edge, otherwise the word loop is long)
	switch verifChoice("mode", 3) {
	case 0:
		verifAssume(verifAnd(wlo <= start, end <= whi))
	case 1:
		verifAssume(verifAnd(start == 0, verifAnd(wlo <= end, end <= whi)))
		verifAssume(wlo <= 128)
	default:
		verifAssume(verifAnd(end == 65536, verifAnd(wlo <= start, start <= whi)))
		verifAssume(whi >= 65536-128)
	}
	got := c.countRange(start, end)
	// closed form: bits of the symbolic words inside [start,end)
	var want int32
	for i, p := range s.wpos {
		lo, hi := int32(p*64), int32(p*64+64)
		a := verifIteI64(int64(start) > int64(lo), int64(start), int64(lo))
		b := verifIteI64(int64(end) < int64(hi), int64(end), int64(hi))
		// mask bits [a-lo, b-lo)
		n := verifIteI64(b > a, b-a, 0)
		sh := verifIteI64(b > a, a-int64(lo), 0)
		m := (s.words[i] >> uint64(sh))
		m = verifIteU64(n >= 64, m, m&((uint64(1)<<uint64(n))-1))
		want += int32(popcount(m))
	}
	verifReach("countRange(bitmap)")
	verifAssert(got == want, "countRange(bitmap)")
}

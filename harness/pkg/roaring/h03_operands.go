package roaring

// H03c: binary derivations are isolated from BOTH operands, including the
// shortcuts taken when one operand's container is completely full (a single
// run [0,65535]): after d = a op b, mutating any one of a, b, d leaves the
// other two unchanged at an arbitrary probe position.
func VerifH03Operands() {
	full := verifChoice("full", verifBound("fulls", 3)) // 0 none, 1 a, 2 b
	atyp, btyp := verifChoice("atyp", verifBound("atyps", 2)), verifChoice("btyp", verifBound("btyps", 2))
	if full == 1 {
		atyp = 3
	} else if full == 2 {
		btyp = 3
	}
	verifNearBase = 0
	a, _ := verifMkOne("a", 1, 1, atyp)
	b, _ := verifMkOne("b", 0, 1, btyp)
	verifNearBase = -1
	d := verifDerive(a, b, 2+verifChoice("derive", verifBound("derivations", 4)))
	p := uint64(1)<<16 | uint64(verifU16("probe.low"))
	beforeA, beforeB, beforeD := a.Contains(p), b.Contains(p), d.Contains(p)
	mk := verifChoice("mutation", verifBound("mutations", 2))
	switch verifChoice("mutate.side", 3) {
	case 0:
		verifMutate(a, mk)
		verifReach("first operand mutated")
		verifAssert(d.Contains(p) == beforeD, "derived value unchanged by mutating its first operand")
		verifAssert(b.Contains(p) == beforeB, "second operand unchanged by mutating the first")
	case 1:
		verifMutate(b, mk)
		verifReach("second operand mutated")
		verifAssert(d.Contains(p) == beforeD, "derived value unchanged by mutating its second operand")
		verifAssert(a.Contains(p) == beforeA, "first operand unchanged by mutating the second")
	default:
		verifMutate(d, mk)
		verifReach("derived mutated")
		verifAssert(a.Contains(p) == beforeA, "first operand unchanged by mutating the derived value")
		verifAssert(b.Contains(p) == beforeB, "second operand unchanged by mutating the derived value")
	}
}

package roaring

import "bytes"

// H09a: process-kill model for the operation log. The log writer records
// the end offset of every Write call (= a completed syscall). After a history
// of logged operations the process is killed after an arbitrary completed
// write: decoding snapshot ++ log-prefix must succeed ("never blocks
// restart"), contain every operation acknowledged before the kill, and hold
// all or nothing of the operation in flight.

type verifCutWriter struct {
	buf  bytes.Buffer
	cuts []int
}

func (w *verifCutWriter) Write(p []byte) (int, error) {
	n, err := w.buf.Write(p)
	w.cuts = append(w.cuts, w.buf.Len())
	return n, err
}

func VerifH09OpLogCrash() {
	b := NewBTreeBitmap()
	var snap bytes.Buffer
	_, _ = b.WriteTo(&snap)
	w := &verifCutWriter{}
	b.OpWriter = w
	s := &verifShadow{}
	// state after each acknowledged operation: copies of the live flags
	type snapState struct {
		vals []uint64
		in   []bool
		end  int // log length when the operation was acknowledged
	}
	states := []snapState{{end: 0}}
	steps := verifBound("steps", 2)
	for i := 0; i < steps; i++ {
		switch verifChoice("op", verifBound("ops", 4)) {
		case 0:
			x := verifHistValue()
			s.add(x)
			_, _ = b.Add(x)
		case 1:
			x := verifHistValue()
			s.remove(x)
			_, _ = b.Remove(x)
		case 2:
			x, y := verifHistValue(), verifHistValue()
			s.add(x)
			s.add(y)
			_, _ = b.AddN(x, y)
		case 3:
			x := verifHistValue()
			src := NewBitmap()
			src.DirectAdd(x)
			var buf bytes.Buffer
			_, _ = src.WriteTo(&buf)
			s.add(x)
			_, _, _ = b.ImportRoaringBits(buf.Bytes(), false, true, 0)
		}
		states = append(states, snapState{vals: append([]uint64{}, s.vals...), in: append([]bool{}, s.in...), end: w.buf.Len()})
	}
	verifReach("history logged")
	// kill after any completed write (or before the first one)
	cuts := append([]int{0}, w.cuts...)
	cut := cuts[verifChoice("kill", len(cuts))]
	data := append(append([]byte{}, snap.Bytes()...), w.buf.Bytes()[:cut]...)
	b2 := NewFileBitmap()
	err := b2.UnmarshalBinary(data)
	verifAssert(err == nil, "restart after a kill between writes succeeds")
	if err != nil {
		return
	}
	// last acknowledged state at the kill point, and the one in flight
	k := 0
	for i := range states {
		if states[i].end <= cut {
			k = i
		}
	}
	x := verifHistValue()
	ack := (&verifShadow{vals: states[k].vals, in: states[k].in}).has(x)
	got := b2.Contains(x)
	if k+1 < len(states) && states[k+1].end > cut {
		next := (&verifShadow{vals: states[k+1].vals, in: states[k+1].in}).has(x)
		verifAssert(verifOr(got == ack, got == next), "operation in flight: none or all of it")
	} else {
		verifAssert(got == ack, "every acknowledged operation is present after restart")
	}
}

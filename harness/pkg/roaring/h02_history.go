package roaring

import "bytes"

// H02: bounded mutation histories on slice- and B-tree-backed bitmaps against
// a branch-free shadow specification.

// verifShadow is the specification state: an explicit list of (value, present)
// slots; values are symbolic, so membership is a disjunction.
type verifShadow struct {
	vals []uint64
	in   []bool
}

func (s *verifShadow) has(x uint64) bool {
	r := false
	for i := range s.vals {
		r = verifOr(r, verifAnd(s.in[i], s.vals[i] == x))
	}
	return r
}

// add returns whether x was newly added.
func (s *verifShadow) add(x uint64) bool {
	was := s.has(x)
	// keep at most one live slot per value: new slot is live only if absent
	s.vals = append(s.vals, x)
	s.in = append(s.in, !was)
	return !was
}

func (s *verifShadow) remove(x uint64) bool {
	was := s.has(x)
	for i := range s.vals {
		s.in[i] = verifAnd(s.in[i], s.vals[i] != x)
	}
	return was
}

func (s *verifShadow) count() uint64 {
	var n uint64
	for i := range s.in {
		n += verifIteU64(s.in[i], 1, 0)
	}
	return n
}

func verifB2I(b bool) int {
	return verifIteInt(b, 1, 0)
}

// verifHistValue: one of a few "hot" container keys, free low 16 bits.
func verifHistValue() uint64 {
	keys := []uint64{0, 1, 0xFFFFFFFFFFFF}
	k := keys[verifChoice("key", verifBound("keys", 2))]
	return k<<16 | uint64(verifU16("low"))
}

func verifCheckAgainstShadow(b *Bitmap, s *verifShadow, tag string) {
	x := verifHistValue()
	verifAssert(b.Contains(x) == s.has(x), tag+": Contains agrees with history")
	verifAssert(b.Count() == s.count(), tag+": Count agrees with history")
	// ordered iteration visits exactly Count() strictly ascending members
	itr := b.Iterator()
	itr.Seek(0)
	var prev uint64
	n := uint64(0)
	first := true
	okOrder, okMember := true, true
	for i := 0; i < len(s.vals)+1; i++ {
		v, eof := itr.Next()
		if eof {
			break
		}
		if !first {
			okOrder = verifAnd(okOrder, prev < v)
		}
		okMember = verifAnd(okMember, s.has(v))
		prev, first = v, false
		n++
	}
	verifAssert(okOrder, tag+": iteration ascending")
	verifAssert(okMember, tag+": iteration yields members only")
	verifAssert(n == s.count(), tag+": iteration length")
	// per-container view
	var cn uint64
	citer, _ := b.Containers.Iterator(0)
	for citer.Next() {
		_, c := citer.Value()
		cn += uint64(c.N())
	}
	verifAssert(cn == s.count(), tag+": container view cardinality")
}

func verifHistory(kind int) {
	var b *Bitmap
	if kind == 0 {
		b = NewBitmap()
	} else {
		b = NewBTreeBitmap()
	}
	s := &verifShadow{}
	steps := verifBound("steps", 2)
	for i := 0; i < steps; i++ {
		op := verifChoice("op", verifBound("ops", 6))
		if verifHistOps != nil {
			op = verifHistOps[op]
		}
		switch op {
		case 0: // Add
			x := verifHistValue()
			want := s.add(x)
			ch, err := b.Add(x)
			verifAssert(err == nil, "Add: no error")
			verifAssert(ch == want, "Add: changed flag")
		case 1: // Remove
			x := verifHistValue()
			want := s.remove(x)
			ch, err := b.Remove(x)
			verifAssert(err == nil, "Remove: no error")
			verifAssert(ch == want, "Remove: changed flag")
		case 2: // AddN of two values (duplicates allowed)
			x, y := verifHistValue(), verifHistValue()
			want := verifB2I(s.add(x))
			want += verifB2I(s.add(y))
			ch, err := b.AddN(x, y)
			verifAssert(err == nil, "AddN: no error")
			verifAssert(ch == want, "AddN: changed count")
		case 3: // RemoveN of two values
			x, y := verifHistValue(), verifHistValue()
			want := verifB2I(s.remove(x))
			want += verifB2I(s.remove(y))
			ch, err := b.RemoveN(x, y)
			verifAssert(err == nil, "RemoveN: no error")
			verifAssert(ch == want, "RemoveN: changed count")
		case 4: // Optimize
			b.Optimize()
		case 5: // ImportRoaringBits of a one-value bitmap built by the real WriteTo
			x := verifHistValue()
			src := NewBitmap()
			src.DirectAdd(x)
			var buf bytes.Buffer
			_, _ = src.WriteTo(&buf)
			clear := verifChoice("clear", 2) == 1
			var want int
			if clear {
				want = verifB2I(s.remove(x))
			} else {
				want = verifB2I(s.add(x))
			}
			ch, _, err := b.ImportRoaringBits(buf.Bytes(), clear, false, 0)
			verifAssert(err == nil, "ImportRoaringBits: no error")
			verifAssert(ch == want, "ImportRoaringBits: changed count")
		}
	}
	verifReach("history done")
	verifCheckAgainstShadow(b, s, "after history")
}

func VerifH02HistorySlice() { verifHistory(0) }
func VerifH02HistoryBTree() { verifHistory(1) }

// Longer histories over the point operations only (Add/Remove/AddN/RemoveN):
// same harness, separately registered so that it can carry its own bounds.
func VerifH02PointOpsSlice() { verifHistory(0) }
func VerifH02PointOpsBTree() { verifHistory(1) }

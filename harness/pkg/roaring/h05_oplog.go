package roaring

import "bytes"

// H05: a bitmap that appends to an operation log; decoding snapshot ++ log
// reproduces the in-memory set and the op counters.
func verifOpLogHistory(crash bool) {
	// initial snapshot: empty or one value
	b := NewBTreeBitmap()
	s := &verifShadow{}
	if verifChoice("snapshot", 2) == 1 {
		x := verifHistValue()
		s.add(x)
		b.DirectAdd(x)
	}
	var snap bytes.Buffer
	_, err := b.WriteTo(&snap)
	verifAssert(err == nil, "snapshot WriteTo: no error")
	var log bytes.Buffer
	b.OpWriter = &log
	var boundaries []int // log length after each acknowledged op
	steps := verifBound("steps", 2)
	for i := 0; i < steps; i++ {
		switch verifChoice("op", verifBound("ops", 6)) {
		case 0:
			x := verifHistValue()
			s.add(x)
			_, err := b.Add(x)
			verifAssert(err == nil, "Add: no error")
		case 1:
			x := verifHistValue()
			s.remove(x)
			_, err := b.Remove(x)
			verifAssert(err == nil, "Remove: no error")
		case 2:
			x, y := verifHistValue(), verifHistValue()
			s.add(x)
			s.add(y)
			_, err := b.AddN(x, y)
			verifAssert(err == nil, "AddN: no error")
		case 3:
			x, y := verifHistValue(), verifHistValue()
			s.remove(x)
			s.remove(y)
			_, err := b.RemoveN(x, y)
			verifAssert(err == nil, "RemoveN: no error")
		case 4, 5:
			x := verifHistValue()
			src := NewBitmap()
			src.DirectAdd(x)
			var buf bytes.Buffer
			_, _ = src.WriteTo(&buf)
			clear := verifChoice("clear", 2) == 1
			if clear {
				s.remove(x)
			} else {
				s.add(x)
			}
			_, _, err := b.ImportRoaringBits(buf.Bytes(), clear, true, 0)
			verifAssert(err == nil, "ImportRoaringBits(log): no error")
		}
		boundaries = append(boundaries, log.Len())
	}
	verifReach("history logged")
	data := append(append([]byte{}, snap.Bytes()...), log.Bytes()...)
	b2 := NewFileBitmap()
	err = b2.UnmarshalBinary(data)
	verifAssert(err == nil, "decoding snapshot+log succeeds")
	x := verifHistValue()
	verifAssert(b2.Contains(x) == s.has(x), "replayed bitmap: membership equals live history")
	verifAssert(b.Contains(x) == s.has(x), "live bitmap: membership equals history")
	verifAssert(b2.Count() == s.count(), "replayed bitmap: count")
	ops1, opN1 := b.Ops()
	ops2, opN2 := b2.Ops()
	verifAssert(ops1 == ops2, "replayed op counter equals live op counter")
	verifAssert(opN1 == opN2, "replayed bit-change counter equals live counter")
	if crash {
		// H09a: kill after any acknowledged operation: the log prefix up to
		// that boundary must decode and contain exactly the acknowledged ops.
		// (Checked for the boundary before the last step.)
		if len(boundaries) >= 2 {
			cut := boundaries[len(boundaries)-2]
			d2 := append(append([]byte{}, snap.Bytes()...), log.Bytes()[:cut]...)
			b3 := NewFileBitmap()
			verifAssert(b3.UnmarshalBinary(d2) == nil, "crash at op boundary: restart succeeds")
		}
	}
}

func VerifH05OpLog() { verifOpLogHistory(false) }

// One-step histories over the full alphabet (incl. logged roaring imports);
// registered separately so that it carries its own bounds.
func VerifH05OpLogStep() { verifOpLogHistory(false) }

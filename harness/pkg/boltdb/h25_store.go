package boltdb

import "os"

// H25b: the bolt-backed attribute store itself, with bolt running on the
// in-memory file system (open, page reads and writes, mapping, sync are the
// file-system calls bolt makes). Histories of SetAttrs / SetBulkAttrs with
// mixed value types and deletes (nil), reads of present and absent ids,
// mutation of maps handed to callers, reopen.

func verifTempDir() string {
	if verifNative() {
		d, _ := os.MkdirTemp("", "verif-attrs")
		return d
	}
	return "/vfs"
}

func verifAttrValue() interface{} {
	// int64(7) and float64(7): equal as numbers, different as attribute values
	switch verifChoice("valkind", verifBound("valkinds", 5)) {
	case 0:
		return "x"
	case 1:
		return int64(7)
	case 2:
		return true
	case 3:
		return float64(7)
	case 5:
		return float64(1.5)
	case 6:
		return int64(1<<53 + 1)
	case 7:
		return int64(1 << 53)
	}
	return nil // delete the key
}

func verifAttrEqual(a, b interface{}) bool {
	switch x := a.(type) {
	case string:
		y, ok := b.(string)
		return ok && x == y
	case int64:
		y, ok := b.(int64)
		return ok && x == y
	case bool:
		y, ok := b.(bool)
		return ok && x == y
	case float64:
		y, ok := b.(float64)
		return ok && x == y
	}
	return a == nil && b == nil
}

func VerifH25Store() {
	dir := verifTempDir()
	if verifNative() {
		defer os.RemoveAll(dir)
	}
	_ = os.MkdirAll(dir, 0777)
	s := NewAttrStore(dir + "/attrs")
	err := s.Open()
	verifAssert(err == nil, "attr store opens")
	if err != nil {
		return
	}
	// specification: id -> key -> value for ids {1, 101} (two blocks) and keys {a, b}
	ids := []uint64{1, 101}
	keys := []string{"a", "b"}
	spec := map[uint64]map[string]interface{}{1: {}, 101: {}}
	steps := verifBound("steps", 2)
	for i := 0; i < steps; i++ {
		id := ids[verifChoice("id", 2)]
		k := keys[verifChoice("key", verifBound("keys", 2))]
		v := verifAttrValue()
		switch verifChoice("op", verifBound("ops", 3)) {
		case 0:
			err := s.SetAttrs(id, map[string]interface{}{k: v})
			verifAssert(err == nil, "SetAttrs: no error")
		case 1:
			err := s.SetBulkAttrs(map[uint64]map[string]interface{}{id: {k: v}})
			verifAssert(err == nil, "SetBulkAttrs: no error")
		case 2:
			// a reader scribbles on the map it was given
			m, err := s.Attrs(id)
			verifAssert(err == nil, "Attrs: no error")
			if m != nil {
				m["scribble"] = int64(1)
			}
			continue
		}
		if v == nil {
			delete(spec[id], k)
		} else {
			spec[id][k] = v
		}
	}
	verifReach("attribute history done")
	if verifChoice("reopen", 2) == 1 {
		verifAssert(s.Close() == nil, "attr store closes")
		s = NewAttrStore(dir + "/attrs")
		verifAssert(s.Open() == nil, "attr store reopens")
	}
	id := ids[verifChoice("probe", 2)]
	m, err := s.Attrs(id)
	verifAssert(err == nil, "Attrs: no error")
	verifAssert(len(m) == len(spec[id]), "Attrs: exactly the merged keys")
	for k, v := range spec[id] {
		verifAssert(verifAttrEqual(v, m[k]), "Attrs: value and type preserved")
	}
	_ = s.Close()
}

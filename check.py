#!/usr/bin/env python3
"""verif-check: decide one property with the gosym bounded symbolic executor.

usage: check.py <Cxx> [--tier quick|thorough] [--replay <model.json>] [--only <harness-regex>]

Exit codes: 0 property held on everything explored (known findings are printed
as KNOWN-FINDING lines); 1 a natively reproduced, unlisted violation
(VIOLATION property=<id> replay=<path>); 2 engine problem (mismatch between
the symbolic run and the native replay, solver error, load failure) — never
to be read as either verdict.
"""
import json, os, re, subprocess, sys, time, shutil, tempfile, glob, hashlib

VERIF = os.path.dirname(os.path.abspath(__file__))
REPO = os.environ.get("VERIF_REPO", "/repo")
GOSYM = os.path.join(VERIF, "bin", "gosym")
HDIR = os.path.join(VERIF, "harness")
MODULE = "github.com/pilosa/pilosa"

GOENV = dict(os.environ, GOFLAGS="-mod=mod", GOPROXY="off", GOSUMDB="off", GOTOOLCHAIN="local", CGO_ENABLED="0")


def load_index():
    ns = {}
    with open(os.path.join(HDIR, "index.py")) as f:
        exec(f.read(), ns)
    return ns["INDEX"]


def load_known():
    known, fixed = [], []
    p = os.path.join(VERIF, "known_findings.jsonl")
    if os.path.exists(p):
        for line in open(p):
            line = line.strip()
            if not line or line.startswith("#"):
                continue
            if line.startswith("fixed:"):
                fixed.append(line)
                continue
            known.append(json.loads(line))
    return known, fixed


def pkg_rel(pk):
    rel = pk[2:] if pk.startswith("./") else pk
    return "" if rel == "." else rel


def harness_src_dir(pk):
    rel = pkg_rel(pk)
    return os.path.join(HDIR, "pkg", rel if rel else "_root")


def harness_funcs(pk):
    names = []
    for f in sorted(glob.glob(os.path.join(harness_src_dir(pk), "*.go"))):
        names += re.findall(r"^func (Verif\w+)\(\)", open(f).read(), re.M)
    return names


def pkg_name(pk):
    for f in sorted(glob.glob(os.path.join(harness_src_dir(pk), "*.go"))):
        m = re.search(r"^package\s+(\w+)", open(f).read(), re.M)
        if m:
            return m.group(1)
    raise SystemExit("no harness files for " + pk)


class Native:
    """Builds one native replay binary per package (go test -c with overlay)."""

    def __init__(self, scratch):
        self.scratch = scratch
        self.bins = {}
        self.build_s = 0.0
        for f in ("go.mod", "go.sum"):
            shutil.copy(os.path.join(REPO, f), os.path.join(scratch, f))

    def binary(self, pk):
        if pk in self.bins:
            return self.bins[pk]
        t0 = time.time()
        rel = pkg_rel(pk)
        name = pkg_name(pk)
        gen = os.path.join(self.scratch, "gen_" + (rel.replace("/", "_") or "root"))
        os.makedirs(gen, exist_ok=True)
        replace = {}
        for f in sorted(glob.glob(os.path.join(harness_src_dir(pk), "*.go"))):
            replace[os.path.join(REPO, rel, "zz_verif_" + os.path.basename(f))] = f
        rt = open(os.path.join(HDIR, "rt.go.tmpl")).read().replace("package PKG", "package " + name, 1)
        rtp = os.path.join(gen, "rt.go")
        open(rtp, "w").write(rt)
        replace[os.path.join(REPO, rel, "zz_verif_rt.go")] = rtp
        funcs = harness_funcs(pk)
        test = ["package " + name, "", 'import ("os"; "testing")', "",
                "var verifHarnessTable = map[string]func(){"]
        test += ['\t"%s": %s,' % (n, n) for n in funcs]
        test += ["}", "",
                 "func TestVerifReplay(t *testing.T) {",
                 '\tname := os.Getenv("VERIF_HARNESS")',
                 "\tfn := verifHarnessTable[name]",
                 '\tif fn == nil { t.Fatalf("unknown harness %q", name) }',
                 "\tif verifRunNative(name, fn) { t.Fail() }",
                 "}", ""]
        tp = os.path.join(gen, "replay_test.go")
        open(tp, "w").write("\n".join(test))
        replace[os.path.join(REPO, rel, "zz_verif_replay_test.go")] = tp
        ov = os.path.join(gen, "overlay.json")
        json.dump({"Replace": replace}, open(ov, "w"))
        out = os.path.join(gen, "replay.test")
        cmd = ["go", "test", "-c", "-vet=off", "-modfile=" + os.path.join(self.scratch, "go.mod"),
               "-overlay", ov, "-o", out, "./" + rel if rel else "."]
        r = subprocess.run(cmd, cwd=REPO, env=GOENV, capture_output=True, text=True, timeout=900)
        self.build_s += time.time() - t0
        if r.returncode != 0 or not os.path.exists(out):
            print("ENGINE-ERROR native replay build failed for %s:\n%s" % (pk, (r.stdout + r.stderr)[-3000:]))
            self.bins[pk] = None
            return None
        self.bins[pk] = out
        return out

    def run(self, pk, harness, model_path, timeout=60):
        b = self.binary(pk)
        if b is None:
            return None
        env = dict(GOENV, VERIF_MODEL=model_path, VERIF_HARNESS=harness)
        rel = pkg_rel(pk)
        try:
            r = subprocess.run([b, "-test.run", "^TestVerifReplay$", "-test.count=1", "-test.timeout", "%ds" % timeout],
                               cwd=os.path.join(REPO, rel), env=env, capture_output=True, text=True, timeout=timeout + 20)
            return r.stdout + r.stderr
        except subprocess.TimeoutExpired as e:
            return "VERIF-HANG timeout\n" + ((e.stdout or b"").decode(errors="replace") if isinstance(e.stdout, bytes) else (e.stdout or ""))


def reproduced(out, v):
    """Does the native output confirm violation v?"""
    if out is None:
        return False
    if "VERIF-MISMATCH" in out and "VERIF-ASSERT-FAIL" not in out and "VERIF-PANIC" not in out:
        return False
    k = v["kind"]
    if k == "assert":
        return ("VERIF-ASSERT-FAIL %s\n" % v["label"]) in out or ("VERIF-ASSERT-FAIL %s\r" % v["label"]) in out
    if k == "panic":
        return "VERIF-PANIC" in out or "panic:" in out or "fatal error" in out
    if k == "deadlock":
        return "VERIF-HANG" in out or "all goroutines are asleep" in out or "test timed out" in out or "fatal error" in out
    if k == "hang":
        return "VERIF-HANG" in out or "test timed out" in out
    if k == "unsafe":
        # memory over-reads cannot be confirmed natively; writes to a read-only
        # mapping crash the process
        return "SIGSEGV" in out or "unexpected fault address" in out or "VERIF-PANIC" in out
    return False


def main():
    args = sys.argv[1:]
    if not args:
        print(__doc__)
        return 2
    prop = args[0]
    tier = os.environ.get("VERIF_TIER", "quick")
    only = None
    replay = None
    i = 1
    while i < len(args):
        if args[i] == "--tier":
            tier = args[i + 1]; i += 2
        elif args[i] == "--only":
            only = args[i + 1]; i += 2
        elif args[i] == "--replay":
            replay = args[i + 1]; i += 2
        else:
            print("unknown arg", args[i]); return 2
    seed = int(os.environ.get("VERIF_SEED", "0") or 0)
    index = load_index()
    if prop not in index:
        print("property %s has no registered check" % prop)
        return 2
    spec = index[prop]
    known, fixed = load_known()
    t0 = time.time()
    scratch = tempfile.mkdtemp(prefix="verif-%s-" % prop)
    try:
        return run(prop, tier, seed, spec, known, scratch, only, replay, t0)
    finally:
        shutil.rmtree(scratch, ignore_errors=True)


def run(prop, tier, seed, spec, known, scratch, only, replay, t0):
    native = Native(scratch)
    if replay:
        m = json.load(open(replay))
        out = native.run(m["package"], m["harness"], replay)
        print(out)
        return 0 if out is not None and not reproduced(out, m["violation"]) else 1

    groups = {}  # package -> harness cfgs
    meta = {}
    for h in spec["harnesses"]:
        if only and not re.search(only, h["name"]):
            continue
        t = dict(h.get("common", {}))
        # thorough bounds are used only where they were run clean on the
        # unchanged tree ("thorough_ok"); otherwise the quick bounds are reused
        use = tier if (tier == "quick" or h.get("thorough_ok") or os.environ.get("VERIF_TRY_THOROUGH")) else "quick"
        t.update(h.get(use) or h.get("quick") or {})
        if t.get("skip"):
            continue
        pk = h.get("package", spec.get("package", "./roaring"))
        kn = [k["class"] for k in known if k["property"] == prop and re.fullmatch(k.get("harness", ".*"), h["name"]) and "class" in k]
        cfg = {"name": h["name"], "bounds": t.get("bounds", {}), "max_steps": t.get("max_steps", 0),
               "max_depth": t.get("max_depth", 0), "max_paths": t.get("max_paths", 0), "known": kn,
               "reverse_maps": bool(t.get("reverse_maps", False)) or (seed % 2 == 1 and bool(t.get("map_order_sensitive", False))),
               "allow_go": bool(t.get("allow_go", False)), "expect_reach": h.get("expect_reach", [])}
        groups.setdefault(pk, []).append(cfg)
        meta[h["name"]] = h

    results = []
    outs = []
    engine_errors = []
    for pk, cfgs in groups.items():
        cfgp = os.path.join(scratch, "cfg_%s.json" % (pkg_rel(pk).replace("/", "_") or "root"))
        outp = cfgp.replace("cfg_", "out_")
        extra_pk = spec.get("extra_packages", [])
        json.dump({"repo": REPO, "packages": [pk] + [e for e in extra_pk if e != pk], "harness_dir": HDIR, "workers": int(os.environ.get("VERIF_WORKERS", "16")),
                   "harnesses": cfgs, "out": outp, "samples": 4 * len(cfgs), "solver": spec.get("solver", "z3-new"),
                   "time_limit_s": int(spec.get("engine_time_limit_s", {}).get(tier, 2400 if tier == "thorough" else 1200)),
                   "path_limit_s": int(spec.get("path_limit_s", 120)),
                   "solver_timeout_ms": int(spec.get("solver_timeout_ms", 60000 if tier == "thorough" else 30000))}, open(cfgp, "w"))
        limit = int(spec.get("time_limit_s", {}).get(tier, 3000 if tier == "thorough" else 1500)) if isinstance(spec.get("time_limit_s"), dict) else (3600 if tier == "thorough" else 1500)
        try:
            r = subprocess.run([GOSYM, "-config", cfgp], env=GOENV, capture_output=True, text=True, timeout=limit)
        except subprocess.TimeoutExpired:
            engine_errors.append("gosym timed out after %ds on %s" % (limit, pk))
            continue
        if os.environ.get("VERIF_ENGINE_STDERR"):
            sys.stderr.write(r.stderr[-20000:])
        if not os.path.exists(outp):
            engine_errors.append("gosym produced no output for %s: %s" % (pk, (r.stdout + r.stderr)[-2000:]))
            continue
        o = json.load(open(outp))
        if o.get("error"):
            engine_errors.append("gosym: " + o["error"][:3000])
        outs.append(o)
        for hr in o.get("harnesses") or []:
            hr["package"] = pk
            results.append(hr)

    # ---- native replay of witnesses and counterexamples ----
    rdir = os.path.join(VERIF, "replays", prop)
    os.makedirs(rdir, exist_ok=True)
    violations, knowns, mismatches, unconfirmed = [], [], [], []
    traces_validated = 0
    problems = []
    for hr in results:
        pk = hr["package"]
        if hr["problems"]:
            for k, n in hr["problems"].items():
                problems.append("%s: %s (x%d)" % (hr["name"], k, n))
        if hr.get("inconclusive"):
            problems.append("%s: %d obligations inconclusive (solver unknown): %s" % (
                hr["name"], hr["inconclusive"], [r for r in (hr.get("reach") or []) if r.startswith("inconclusive:")]))
        if hr.get("missing_reach"):
            problems.append("%s: vacuity: markers never reached: %s" % (hr["name"], hr["missing_reach"]))
        if not any(r.startswith("assert:") for r in (hr.get("reach") or [])) and not meta[hr["name"]].get("no_assert"):
            problems.append("%s: vacuity: no assertion reached on any feasible path" % hr["name"])
        # reachability witness: replay one sample natively, it must run to the end
        for s in (hr.get("samples") or [])[:1]:
            mp = os.path.join(scratch, "sample_%s.json" % hr["name"])
            json.dump({"harness": hr["name"], "inputs": s, "bounds": hr.get("bounds") or {}}, open(mp, "w"))
            out = native.run(pk, hr["name"], mp)
            if out is None:
                engine_errors.append("native replay unavailable for " + pk)
            elif ("VERIF-DONE %s" % hr["name"]) in out and "VERIF-ASSERT-FAIL" not in out and "VERIF-MISMATCH" not in out:
                traces_validated += 1
            elif "VERIF-ASSERT-FAIL" in out and any(v["kind"] == "assert" for v in hr.get("violations") or []):
                traces_validated += 1  # sample taken after a (reported) failing assertion
            else:
                mismatches.append("%s: witness path did not replay natively: %s" % (hr["name"], out[-600:]))
        for n, v in enumerate(hr.get("violations") or []):
            if v["kind"] == "out-of-model":
                if os.environ.get("VERIF_SHOW"):
                    print("OUT-OF-MODEL %s %s inputs=%s" % (hr["name"], v.get("msg"), {x["name"]: x["val"] for x in v["inputs"]}))
                continue
            tag = hashlib.sha1(json.dumps([v["label"], v["inputs"]], sort_keys=True).encode()).hexdigest()[:8]
            mp = os.path.join(rdir, "%s-%s.json" % (hr["name"], tag))
            json.dump({"property": prop, "package": pk, "harness": hr["name"], "inputs": v["inputs"], "bounds": hr.get("bounds") or {},
                       "violation": {"kind": v["kind"], "label": v["label"], "msg": v.get("msg", ""), "classes": v.get("classes"), "known": v.get("known")}},
                      open(mp, "w"), indent=1)
            out = native.run(pk, hr["name"], mp)
            traces_validated += 1
            ok = reproduced(out, v)
            if os.environ.get("VERIF_SHOW"):
                print("REPLAY %s %s -> reproduced=%s\n%s" % (hr["name"], v["label"], ok, (out or "")[-2500:]))
            what = "%s/%s" % (hr["name"], v["label"]) + (": " + v["msg"] if v.get("msg") else "")
            if v.get("known"):
                kf = [k for k in known if k["property"] == prop and k.get("class") == v["known"]]
                desc = kf[0]["what"] if kf else v["known"]
                if ok:
                    knowns.append((v["known"], "%s/%s/%s: %s" % (hr["name"], v["label"], v["known"], desc)))
                else:
                    mismatches.append("known-finding %s did not reproduce natively (%s)" % (v["known"], what))
                os.remove(mp)
                continue
            if ok:
                violations.append((mp, what, v))
            elif v["kind"] == "unsafe" and "read-only" not in v.get("msg", ""):
                unconfirmed.append((mp, what, v))
            else:
                mismatches.append("%s: model did not reproduce natively: %s" % (what, (out or "")[-800:]))

    # ---- evidence ----
    paths = sum(h["paths"] for h in results)
    queries = sum(o.get("solver_queries", 0) for o in outs)
    funcs = sorted(set(f for o in outs for f in (o.get("functions_encoded") or [])))
    target_funcs = [f for f in funcs if MODULE in f and ".Verif" not in f and ".verif" not in f]
    samples = []
    for hr in results:
        for s in (hr.get("samples") or [])[:1]:
            samples.append({"harness": hr["name"], "inputs": {x["name"]: x["val"] for x in s}})
    if not samples:
        samples = [{"harness": h["name"], "note": "no completed path produced a sample"} for h in results[:1]] or [{"note": "nothing ran"}]
    obligations = sum(h["obligations"] for h in results)
    discharged = sum(h["discharged"] for h in results)
    ev = {
        "property_id": prop, "tier": tier, "seed": seed, "level": "model_checking",
        "coverage": {
            "states": max(paths, 1) if results else 0, "transitions": max(queries, 1) if results else 0,
            "traces_validated_against_impl": traces_validated,
            "samples": samples[:12],
            "obligations": obligations, "discharged": discharged,
            "inconclusive": sum(h["inconclusive"] for h in results),
            "explanation": "bounded symbolic execution of the real Go code (go/ssa) decided by z3; states = feasible paths completed, transitions = SMT queries",
            "functions_encoded": target_funcs, "functions_encoded_total": len(funcs),
            "harnesses": [{"name": h["name"], "paths": h["paths"], "status": h["status"], "obligations": h["obligations"], "discharged": h["discharged"],
                           "violations": len(h.get("violations") or []), "bounds": h.get("bounds"), "complete": h["complete"], "wall_s": round(h.get("wall_s", 0), 2),
                           "reach": h.get("reach")} for h in results],
            "solver_queries": queries, "solver_s": round(sum(o.get("solver_s", 0) for o in outs), 2),
            "solver_errors": sum(o.get("solver_errors", 0) for o in outs),
            "unwinding_or_model_problems": problems, "engine_mismatches": mismatches,
            "unconfirmed_unsafe": [w for _, w, _ in unconfirmed],
            "known_findings": sorted(set(k for k, _ in knowns)),
            "exhaustive": False,
        },
        "assumptions": spec.get("assumptions", []) + [
            "bounds: shapes (element counts, history lengths, buffer lengths) as listed per harness; scalar contents fully symbolic",
            "environment stubs of DESIGN.md section 2.4; engine trusted up to native replay of every witness and counterexample",
        ],
        "wall_s": round(time.time() - t0, 2),
        "violations": len(violations),
    }
    # partial runs (--only, bound trials) must not replace the property's evidence
    evdir = os.environ.get("VERIF_EVIDENCE_DIR") or (os.path.join(tempfile.gettempdir(), "verif-partial-evidence") if only else os.path.join(VERIF, "evidence"))
    os.makedirs(evdir, exist_ok=True)
    json.dump(ev, open(os.path.join(evdir, prop + ".json"), "w"), indent=1)

    # ---- verdict ----
    for h in results:
        print("harness %-40s paths=%-6d obligations=%-6d discharged=%-6d violations=%d %s" % (
            h["name"], h["paths"], h["obligations"], h["discharged"], len(h.get("violations") or []), "" if h["complete"] else "INCOMPLETE"))
    for k, line in sorted(set(knowns)):
        print("KNOWN-FINDING: property=%s %s" % (prop, line))
    for mp, what, v in unconfirmed:
        print("UNSAFE-UNCONFIRMED property=%s %s model=%s (memory over-read: cannot be confirmed natively; triage by reading)" % (prop, what, mp))
    rc = 0
    for mp, what, v in violations:
        print("VIOLATION property=%s replay=%s  # %s classes=%s" % (prop, mp, what, v.get("classes")))
        rc = 1
    if rc == 0:
        for p in problems:
            print("BOUND-PROBLEM %s" % p)
        for m in mismatches:
            print("ENGINE-MISMATCH %s" % m)
        for e in engine_errors:
            print("ENGINE-ERROR %s" % e)
        if problems or mismatches or engine_errors or not results:
            rc = 2
    print("property=%s tier=%s paths=%d queries=%d replays=%d wall=%.1fs rc=%d" % (prop, tier, paths, queries, traces_validated, time.time() - t0, rc))
    return rc


if __name__ == "__main__":
    sys.exit(main())
